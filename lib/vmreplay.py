"""vmreplay: confirm VM-level counterexamples on a native ASan+UBSan build of the same sources (from /repo's working tree)."""
import native, vmh
def exe():
    return native.build('replay_vm', vmh.VM_SOURCES + ['operators/object.cpp', 'operators/group.cpp', '/verif/harness/replay_vm.cpp'])
def run(args, timeout=30):
    return native.run(exe(), args, timeout=timeout)
def replay(spec):
    """spec kind 'vm': op compile|config|preprocess + hex; expectation: crash / hang / sanitizer report / failure without diagnostic"""
    op = spec['op']
    if op in ('compile', 'config', 'preprocess'):
        rc, out, err = run([op, spec['hex']], timeout=spec.get('timeout', 20))
        ok, d = native.classify(rc, out, err)
        if not ok and spec.get('expect') == 'silent_failure':
            res = [l for l in out.split('\n') if l.startswith('RESULT')]
            logs = [l for l in out.split('\n') if l.startswith('LOG 0') or l.startswith('LOG 1')]
            if res and res[0].split()[1] in ('0', '-1') and not logs: ok, d = True, 'front end failed without any error diagnostic'
        return ok, d + ' [%s %s]' % (op, bytes.fromhex(spec['hex'])[:80])
    if op == 'run':
        args = ['run', str(spec.get('ops', vmh.OPS_DEFAULT)), str(spec.get('pp', 0)), spec['hex']] + list(spec.get('holes', []))
        rc, out, err = run(args, timeout=spec.get('timeout', 30))
        ok, d = native.classify(rc, out, err)
        if not ok and 'expect_traces' in spec:
            tr = [l[6:] for l in out.split('\n') if l.startswith('TRACE ')]
            if tr != spec['expect_traces']: ok, d = True, 'native run differs from the reference semantics: traces %r, reference %r' % (tr[:12], spec['expect_traces'][:12])
            else: ok, d = False, 'native run agrees with the reference (counterexample not reproduced)'
        elif not ok and 'expect_fn' in spec:
            pass
        return ok, d + ' [%s]' % bytes.fromhex(spec['hex'])[:200]
    return None, 'unknown op'
