"""vmreplay: confirm VM-level counterexamples on a native ASan+UBSan build of the same sources (from /repo's working tree)."""
import native, vmh
def exe():
    return native.build('replay_vm', vmh.VM_SOURCES + ['operators/object.cpp', 'operators/group.cpp', '/verif/harness/replay_vm.cpp'])
def run(args, timeout=30):
    return native.run(exe(), args, timeout=timeout)
def replay(spec):
    """spec kind 'vm': op compile|config|preprocess + hex; expectation: crash / hang / sanitizer report / failure without diagnostic"""
    op = spec['op']
    if op in ('compile', 'config', 'preprocess'):
        rc, out, err = run([op, spec['hex']], timeout=spec.get('timeout', 20))
        ok, d = native.classify(rc, out, err)
        if not ok and spec.get('expect') == 'silent_failure':
            res = [l for l in out.split('\n') if l.startswith('RESULT')]
            logs = [l for l in out.split('\n') if l.startswith('LOG 0') or l.startswith('LOG 1')]
            if res and res[0].split()[1] in ('0', '-1') and not logs: ok, d = True, 'front end failed without any error diagnostic'
        return ok, d + ' [%s %s]' % (op, bytes.fromhex(spec['hex'])[:80])
    if op == 'run':
        args = ['run', str(spec.get('ops', vmh.OPS_DEFAULT)), str(spec.get('pp', 0)), spec['hex']] + list(spec.get('holes', []))
        rc, out, err = run(args, timeout=spec.get('timeout', 30))
        ok, d = native.classify(rc, out, err)
        if not ok and 'expect_traces' in spec:
            tr = [l[6:] for l in out.split('\n') if l.startswith('TRACE ')]
            if tr != spec['expect_traces']: ok, d = True, 'native run differs from the reference semantics: traces %r, reference %r' % (tr[:12], spec['expect_traces'][:12])
            else: ok, d = False, 'native run agrees with the reference (counterexample not reproduced)'
        elif not ok and 'expect_fn' in spec:
            pass
        return ok, d + ' [%s]' % bytes.fromhex(spec['hex'])[:200]
    return None, 'unknown op'

def replay_history(spec):
    """spec: runs=[{hex, holes, expect_traces, expect_outcome}]; all on one native VM. Reproduced iff some run's traces / failure status differ from the reference."""
    args = ['runs', str(spec.get('ops', vmh.OPS_DEFAULT))]
    for i, r in enumerate(spec['runs']):
        if i: args.append('--')
        args.append(r['hex']); args += list(r.get('holes', []))
    rc, out, err = run(args, timeout=spec.get('timeout', 40))
    ok, d = native.classify(rc, out, err)
    if ok: return ok, d
    runs = out.split('RUN ')[1:]
    for i, (txt, r) in enumerate(zip(runs, spec['runs'])):
        lines = txt.split('\n')
        tr = [l[6:] for l in lines if l.startswith('TRACE ')]
        res = [l for l in lines if l.startswith('RESULT ')]
        errs = [l for l in lines if l.startswith('LOG 0 ') or l.startswith('LOG 1 ')]
        rcode = int(res[0].split()[1]) if res else None
        if tr != r['expect_traces']: return True, 'native run %d differs from the reference: traces %r, reference %r' % (i + 1, tr[:10], r['expect_traces'][:10])
        if r['expect_outcome'] == 'ok' and (rcode == 2 or errs): return True, 'native run %d is error-free by the reference but was reported failed/blamed: result %s, %s' % (i + 1, rcode, (errs or [''])[0][:120])
        if r['expect_outcome'] == 'error' and rcode != 2: return True, 'native run %d has an unhandled error by the reference but returned %s' % (i + 1, rcode)
    return False, 'native history agrees with the reference'
