"""oblig: turn explore results into obligation records for the check driver."""
import os, sys, time, json
HERE = os.path.dirname(os.path.abspath(__file__)); VERIF = os.path.dirname(HERE)
sys.path.insert(0, os.path.join(VERIF, 'engine'))
import explore, symrt as rt

def run(oid, cases, ctx, functions, bounds, assumptions=(), stubs=(), case_timeout=300, total_timeout=None, keyfn=None, replayfn=None, sample_fn=None, jobs=None, step_limit=None, witness_expect=None, budget_is_violation=None):
    """cases: list of (case_id, fn). fn returns an optional dict that is stored in the path record (key 'extra' fields flattened).
    keyfn(case_id, violation_dict, record) -> stable key string. replayfn(case_id, violation, record) -> replay spec (JSON-able) or None."""
    if ctx.get('only') and ctx['only'] not in oid: return None
    t0 = time.time()
    outdir = os.path.join(ctx['workdir'], 'res_' + oid.replace('/', '_'))
    if step_limit: rt.LIM[0] = step_limit
    recs = explore.run_cases(cases, outdir, jobs or ctx.get('jobs', 16), case_timeout, total_timeout)
    summ = explore.summarize(recs)
    paths = len(recs)
    verdicts = {}
    for r in recs: verdicts[r['verdict']] = verdicts.get(r['verdict'], 0) + 1
    complete = all(s['complete'] for s in summ.values()) and len(summ) == len(cases)
    viols = []
    for r in recs:
        for v in r.get('violations', []):
            cid = r.get('case')
            key = keyfn(cid, v, r) if keyfn else '%s:%s:%s' % (oid, cid, v.get('kind'))
            ent = dict(kind=v.get('kind'), msg=v.get('msg'), inputs=v.get('inputs'), case=cid, key=key)
            if replayfn:
                try: ent['replay'] = replayfn(cid, v, r)
                except Exception as e: ent['replay'] = None
            viols.append(ent)
    if budget_is_violation:
        for r in recs:
            if r['verdict'] == 'budget' and 'step budget' in str(r.get('detail')):
                v = dict(kind='nontermination', msg=budget_is_violation + ' (' + str(r.get('detail')) + ')', inputs=r.get('inputs'))
                cid = r.get('case')
                ent = dict(kind=v['kind'], msg=v['msg'], inputs=v['inputs'], case=cid, key=keyfn(cid, v, r) if keyfn else '%s:%s:nontermination' % (oid, cid))
                if replayfn:
                    try: ent['replay'] = replayfn(cid, v, r)
                    except Exception: ent['replay'] = None
                viols.append(ent); r['verdict'] = 'violation'
        verdicts = {}
        for r in recs: verdicts[r['verdict']] = verdicts.get(r['verdict'], 0) + 1
    bad = sum(verdicts.get(k, 0) for k in ('inconclusive', 'engine_error', 'budget'))
    if viols: status = 'violated'
    elif bad or not complete: status = 'inconclusive'
    else: status = 'held'
    samples = []
    for r in recs[:400]:
        if sample_fn:
            smp = sample_fn(r)
            if smp is not None: samples.append(smp)
        if len(samples) >= 3: break
    if not samples and recs:
        r = recs[len(recs) // 2]
        samples.append(dict(case=r.get('case'), path_condition=r.get('pc', [])[:6], decisions=r.get('decisions', '')[:64], verdict=r['verdict']))
    notes = []
    for r in recs:
        if r['verdict'] in ('inconclusive', 'engine_error', 'budget') and len(notes) < 5: notes.append('%s: %s: %s' % (r.get('case'), r['verdict'], str(r.get('detail'))[:300]))
    ob = dict(id=oid, engine='E2 (ll2py+symrt, z3 %s)' % __import__('z3').get_version_string(), status=status, paths=paths,
              queries=sum(r.get('nquery', 0) for r in recs), solver_s=round(sum(r.get('solver_s', 0) for r in recs), 2),
              wall_s=round(time.time() - t0, 2), complete=complete, verdicts=verdicts, violations=viols, functions=list(functions), bounds=bounds,
              assumptions=list(assumptions), stubs=list(stubs), samples=samples, note='; '.join(notes), cases=len(cases), steps=sum(r.get('steps', 0) for r in recs))
    return ob, recs

def witness_check(ob, recs, pred, what):
    """vacuity guard: at least one explored path must satisfy pred (e.g. reached the final assertion with a non-trivial token)"""
    n = sum(1 for r in recs if pred(r))
    ob['witness'] = dict(what=what, paths=n)
    if n == 0 and ob['status'] == 'held':
        ob['status'] = 'inconclusive'; ob['note'] = (ob.get('note', '') + '; vacuous: no path satisfied the reachability witness (%s)' % what).strip('; ')
    return ob
