"""diffvm: differential obligations "real VM (in E2) vs reference semantics (sqfref)" over programs with symbolic holes."""
import z3
import symrt as rt, vmh, oblig, sqfref
from symrt import S, SF

def render(v):
    """reference value -> the text the real VM prints with to_string_sqf (used to compare native replays)"""
    if v is None: return 'nil'
    if isinstance(v, bool): return 'true' if v else 'false'
    if isinstance(v, float): return '%g' % v
    if isinstance(v, bytes): return '"' + v.replace(b'"', b'""').decode('latin1') + '"'
    if isinstance(v, list): return '[' + ','.join(render(x) for x in v) + ']'
    if isinstance(v, tuple) and v[0] == 'code': return v[1].decode('latin1')
    return str(v)

class Prog:
    """a program with holes: stmts (sqfref AST), hole domains"""
    def __init__(s, stmts, fholes=None, bholes=(), note=''):
        s.stmts = stmts; s.fholes = fholes or {}; s.bholes = list(bholes); s.note = note
    def text(s): return sqfref.program_sqf(s.stmts)

def make_holes(p, h):
    hf = {}; hb = {}
    # the harness registers hf0__..hf11__ and hb0__..hb7__: a program needing more must not run (its extra holes would read as undefined variables)
    if any(i > 11 for i in p.fholes) or any(i > 7 for i in p.bholes): raise RuntimeError('program needs more hole operators than harness/w_vm.cpp registers')
    for i, dom in p.fholes.items():
        x = rt.fresh_f32('hf%d' % i)
        if isinstance(dom, (list, tuple)) and dom and dom[0] == 'range':
            rt.assume(z3.And(z3.fpGEQ(x.e, z3.FPVal(float(dom[1]), rt.F32)), z3.fpLEQ(x.e, z3.FPVal(float(dom[2]), rt.F32))))
        elif isinstance(dom, (list, tuple)) and dom and dom[0] == 'sym':
            rt.assume(z3.And(z3.Or(*[z3.fpEQ(x.e, z3.FPVal(float(c), rt.F32)) for c in dom[1:]]), z3.Not(z3.And(z3.fpIsZero(x.e), z3.fpIsNegative(x.e)))))
        else:
            # small numeric domain steering control flow (loop bounds, case selectors): the solver forks over the domain right away,
            # so that the arithmetic on it stays concrete (FP bit-blasting of chained fadds made these queries ~0.3 s each)
            rt.assume(z3.And(z3.Or(*[z3.fpEQ(x.e, z3.FPVal(float(c), rt.F32)) for c in dom]), z3.Not(z3.And(z3.fpIsZero(x.e), z3.fpIsNegative(x.e)))))
            for c in dom:
                if rt.branch(z3.fpEQ(x.e, z3.FPVal(float(c), rt.F32))):
                    x = float(c); break
            else:
                rt.end_path('pruned', 'hole domain exhausted')
        hf[i] = x
    for i in p.bholes:
        hb[i] = rt.fresh_bool('hb%d' % i)
    h.holes_f = hf; h.holes_b = hb
    return hf, hb

def diff_case(h, p, ops=vmh.OPS_DEFAULT, expect_no_errors=True, max_while=None, extra_check=None):
    """one symbolic case: run p on the real VM, then the reference under the resulting path condition, compare traces"""
    def case():
        h.reset_obs()
        vm = h.new_vm(ops)
        if max_while is not None: h.N['w_vm_set_cfg'](vm, 0, max_while)
        hf, hb = make_holes(p, h)
        text = p.text()
        r = h.run(vm, text)
        vm_trace = list(h.traces); vm_errs = h.errors()
        ref = sqfref.Ref(hf, hb, max_while=max_while or 10000)
        try:
            out = ref.run(p.stmts)
        except sqfref.RefUnsupported as e:
            rt.end_path('skipped', 'reference does not model: %s' % e)
        # outcome
        if r == -3:
            rt.record_violation('assert', 'program of the grammar does not parse: ' + text[:200]); return dict(text=text)
        if out[0] == 'ok':
            if expect_no_errors and vm_errs:
                rt.record_violation('assert', 'reference run is error-free but the VM reported: ' + vm_errs[0][2][:200])
            if r == 2: rt.record_violation('assert', 'reference run is error-free but execute() returned runtime_error')
        elif out[0] == 'error':
            if not vm_errs: rt.record_violation('assert', 'reference semantics raise an error (%s) but the VM reported none' % out[1])
        # traces
        rtrace = ref.trace
        n = min(len(vm_trace), len(rtrace))
        for i in range(n):
            c = sqfref.same(vm_trace[i], [rtrace[i]])
            if c is True: continue
            if c is False:
                rt.record_violation('assert', 'trace entry %d differs: VM %r, reference %r' % (i, _short(vm_trace[i]), _short([rtrace[i]]))); break
            rt.check(c, 'trace entry %d differs for some hole values: VM %s, reference %s' % (i, _short(vm_trace[i]), _short([rtrace[i]])))
        if len(vm_trace) != len(rtrace) and not rt.PS.violations:
            rt.record_violation('assert', 'VM executed %d traced statements, reference %d (VM %s | ref %s)' % (len(vm_trace), len(rtrace), _short(vm_trace[-3:]), _short(rtrace[-3:])))
        if extra_check: extra_check(h, vm, ref, out, r)
        return dict(text=text, ntrace=len(rtrace), outcome=out[0])
    return case

def _short(v):
    s_ = repr(v)
    return s_ if len(s_) < 160 else s_[:157] + '...'

def concrete_expect(p, inputs, max_while=None):
    """reference traces for concrete hole values (for native replay comparison)"""
    import struct
    hf = {}; hb = {}
    for i in p.fholes:
        v = inputs.get('hf%d' % i)
        bits = v['f32bits'] if isinstance(v, dict) else 0
        hf[i] = struct.unpack('<f', struct.pack('<I', bits))[0]
    for i in p.bholes: hb[i] = bool(inputs.get('hb%d' % i, 0))
    ref = sqfref.Ref(hf, hb, max_while=max_while or 10000)
    out = ref.run(p.stmts)
    return [render([t]) for t in ref.trace], out

def replay_spec(p, inputs, ops=vmh.OPS_DEFAULT, max_while=None):
    holes = []
    for i in p.fholes:
        v = inputs.get('hf%d' % i); bits = v['f32bits'] if isinstance(v, dict) else 0
        holes.append('f%d=%08x' % (i, bits))
    for i in p.bholes: holes.append('b%d=%d' % (i, 1 if inputs.get('hb%d' % i, 0) else 0))
    if max_while is not None: holes.append('L=%d' % max_while)
    exp, out = concrete_expect(p, inputs, max_while)
    return dict(kind='vm', op='run', ops=ops, pp=0, hex=p.text().encode('latin1').hex(), holes=holes, expect_traces=exp, expect_outcome=out[0])

def run_obligation(oid, progs, ctx, h, bounds, ops=vmh.OPS_DEFAULT, functions=None, case_timeout=300, max_while=None, expect_no_errors=True, extra_check=None, step_limit=30_000_000):
    """progs: dict case_id -> Prog"""
    import re
    def key(cid, v, r):
        return '%s:%s:%s' % (oid, cid, v.get('kind'))
    def rep(cid, v, r):
        inp = v.get('inputs') or r.get('inputs') or {}
        return replay_spec(progs[cid], inp, ops, max_while)
    cases = [(cid, diff_case(h, p, ops, expect_no_errors, max_while, extra_check)) for cid, p in progs.items()]
    funcs = functions or sorted(n for n in h.m.DEFINED if ('ops_generic' in n or 'frame' in n or 'runtime7runtime' in n or 'opcodes' in n) and len(n) < 120)
    r = oblig.run(oid, cases, ctx, funcs, bounds, assumptions=['allocation failure is out of scope', 'reference semantics: lib/sqfref.py (written from the property statements)', 'harness operators hfN__/hbN__/trace__ are registered through the VM\'s own register_sqfop()'],
                  case_timeout=case_timeout, keyfn=key, replayfn=rep, step_limit=step_limit,
                  sample_fn=lambda rr: dict(program=rr.get('text', '')[:300], path_condition=rr.get('pc', [])[:4], traced=rr.get('ntrace')) if rr.get('text') else None)
    if not r: return None
    ob, recs = r
    skipped = sum(1 for x in recs if x['verdict'] == 'skipped')
    ob['note'] = (ob.get('note', '') + ('; %d paths skipped (outside the reference subset)' % skipped if skipped else '')).strip('; ')
    oblig.witness_check(ob, recs, lambda rr: rr['verdict'] == 'ok' and (rr.get('ntrace') or 0) >= 1, 'a path whose traces were compared with the reference')
    return ob
