"""sqfref: reference semantics for a subset of SQF, written from the property statements / documented language behaviour
(NOT from the implementation). Programs are ASTs (nested tuples); `to_sqf` prints them as source for the real VM,
`Ref(...).run` evaluates them over concrete or symbolic (symrt.S / symrt.SF) scalars. Branching on a symbolic condition goes
through symrt.branch(), i.e. under the path condition established by the real execution.

Expressions
  ('num', float) ('hole', i) ('bhole', i) ('bool', b) ('str', bytes) ('nil',) ('var', name) ('arr', [e..]) ('code', [stmt..])
  ('un', op, e) ('bin', op, l, r)                      -- pure operators (arith, compare, logic, array ops), see UN/BIN tables
  ('if', c, then, else|None) ('call', args|None, code_expr) ('lazy', 'and'|'or', l, stmts)
  ('while', cond_stmts, body) ('for', var, frm, to, step|None, body) ('foreach', body, arr) ('countc', body, arr)
  ('selectc', arr, body) ('apply', arr, body) ('findif', arr, body) ('switch', e, body_stmts) ('try', body, handler)
  ('isnil', name)
Statements
  expr | ('assign', name, e) | ('private', name, e) | ('privdecl', [names]) | ('exitwith', c, stmts) | ('case', e, stmts|None) | ('default', stmts)
  | ('throw', e) | ('scopename', bytes) | ('breakout', bytes, e|None) | ('trace', e) | ('params', [names])
"""
import math
import symrt as rt
from symrt import S, SF

# ------------------------------------------------------------------ printing
def fnum(v):
    if v != v: return '(0/0)'   # never generated
    if v == int(v) and abs(v) < 1e6: return str(int(v)) if v >= 0 else '(%d)' % int(v)
    return repr(float(v)) if v >= 0 else '(%r)' % float(v)
def qstr(b):
    return '"' + b.replace(b'"', b'""').decode('latin1') + '"'
def block(stmts): return '{ ' + ' '.join(stmt_sqf(s) + ';' for s in stmts) + ' }'
def P(e): return '(' + to_sqf(e) + ')'
def to_sqf(e):
    k = e[0]
    if k == 'num': return fnum(e[1])
    if k == 'hole': return 'hf%d__' % e[1]
    if k == 'bhole': return 'hb%d__' % e[1]
    if k == 'bool': return 'true' if e[1] else 'false'
    if k == 'str': return qstr(e[1])
    if k == 'nil': return 'nil'
    if k == 'nul': return e[1]
    if k == 'var': return e[1]
    if k == 'arr': return '[' + ', '.join(to_sqf(x) for x in e[1]) + ']'
    if k == 'code': return block(e[1])
    if k == 'un': return '(%s %s)' % (e[1], P(e[2]))
    if k == 'bin': return '(%s %s %s)' % (P(e[2]), e[1], P(e[3]))
    if k == 'if':
        s = 'if %s then %s' % (P(e[1]), block(e[2]))
        if e[3] is not None: s += ' else ' + block(e[3])
        return '(' + s + ')'
    if k == 'call':
        if e[1] is None: return '(call %s)' % P(e[2])
        return '(%s call %s)' % (P(e[1]), P(e[2]))
    if k == 'lazy': return '(%s %s %s)' % (P(e[2]), '&&' if e[1] == 'and' else '||', block(e[3]))
    if k == 'while': return '(while %s do %s)' % (block(e[1]), block(e[2]))
    if k == 'for':
        s = 'for "%s" from %s to %s' % (e[1], P(e[2]), P(e[3]))
        if e[4] is not None: s += ' step ' + P(e[4])
        return '(' + s + ' do ' + block(e[5]) + ')'
    if k == 'foreach': return '(%s forEach %s)' % (block(e[1]), P(e[2]))
    if k == 'countc': return '(%s count %s)' % (block(e[1]), P(e[2]))
    if k == 'selectc': return '(%s select %s)' % (P(e[1]), block(e[2]))
    if k == 'apply': return '(%s apply %s)' % (P(e[1]), block(e[2]))
    if k == 'findif': return '(%s findIf %s)' % (P(e[1]), block(e[2]))
    if k == 'switch': return '(switch %s do %s)' % (P(e[1]), block(e[2]))
    if k == 'try': return '(try %s catch %s)' % (block(e[1]), block(e[2]))
    if k == 'isnil': return '(isNil "%s")' % e[1]
    if k == 'err': return ['([] select 5)', '([1] set [-1, 0])', '(call 5)', '("a" + 1)'][e[1]]
    if k == 'except': return '(%s except__ %s)' % (block(e[1]), block(e[2]))
    if k == 'with': return '(with %s do %s)' % (e[1], block(e[2]))
    if k == 'getvar': return '(%s getVariable "%s")' % (e[1], e[2])
    if k == 'setvar': return '(%s setVariable ["%s", %s])' % (e[1], e[2], to_sqf(e[3]))
    if k == 'spawn': return '(%s spawn %s)' % (P(e[1]), block(e[2]))
    raise ValueError(e)
def stmt_sqf(s):
    k = s[0]
    if k == 'assign': return '%s = %s' % (s[1], to_sqf(s[2]))
    if k == 'private': return 'private %s = %s' % (s[1], to_sqf(s[2]))
    if k == 'privdecl': return 'private [' + ', '.join('"%s"' % n for n in s[1]) + ']'
    if k == 'params': return 'params [' + ', '.join('"%s"' % n for n in s[1]) + ']'
    if k == 'exitwith': return 'if %s exitWith %s' % (P(s[1]), block(s[2]))
    if k == 'case': return 'case %s' % P(s[1]) + (': ' + block(s[2]) if s[2] is not None else '')
    if k == 'default': return 'default ' + block(s[1])
    if k == 'throw': return 'throw ' + P(s[1])
    if k == 'scopename': return 'scopeName ' + qstr(s[1])
    if k == 'breakout': return ('%s breakOut %s' % (P(s[2]), qstr(s[1]))) if s[2] is not None else 'breakOut ' + qstr(s[1])
    if k == 'trace': return 'trace__ [%s]' % to_sqf(s[1])
    return to_sqf(s)
def program_sqf(stmts): return ' '.join(stmt_sqf(s) + ';' for s in stmts)

# ------------------------------------------------------------------ values
class Arr:
    __slots__ = ('v',)
    def __init__(s, v): s.v = list(v)
class Code:
    __slots__ = ('stmts',)
    def __init__(s, stmts): s.stmts = stmts
class HMap:
    """finite map keyed by isEqualTo; keys are captured by value at insertion"""
    __slots__ = ('items',)
    def __init__(s, items=None): s.items = list(items or [])
class RefError(Exception):
    """the reference semantics say this operation raises an SQF runtime error"""
class RefUnsupported(Exception):
    """outside the modelled subset: the comparison is skipped for this path (counted)"""
class _ExitWith(Exception):
    def __init__(s, value): s.value = value
class _BreakOut(Exception):
    def __init__(s, name, value): s.name = name; s.value = value
class _Throw(Exception):
    def __init__(s, value): s.value = value
class _SwitchHit(Exception):
    def __init__(s, code): s.code = code

def snapshot(v):
    """deep copy for traces: arrays by value"""
    if isinstance(v, Arr): return [snapshot(x) for x in v.v]
    if isinstance(v, Code): return ('code', block(v.stmts).encode('latin1'))
    if isinstance(v, HMap): return ('hashmap', [[snapshot(k), snapshot(x)] for k, x in v.items])
    if isinstance(v, tuple) and v and v[0] == 'keyset': return ('keyset', [snapshot(k) for k in v[1]])
    return v
def idform(v, seen, stack):
    if not isinstance(v, Arr): return None
    k = id(v)
    if k in stack: return ('cycle', seen[k])
    if k not in seen: seen[k] = len(seen)
    stack.append(k)
    try: return ('arr', seen[k], [idform(x, seen, stack) for x in v.v])
    finally: stack.pop()
def contains(container, target, depth=0):
    """does `container` (Arr / HMap) reach the object `target`?"""
    if container is target: return True
    if depth > 20: return True
    if isinstance(container, Arr): return any(contains(x, target, depth + 1) for x in container.v)
    if isinstance(container, HMap): return any(contains(k, target, depth + 1) or contains(x, target, depth + 1) for k, x in container.items)
    return False
def is_num(v): return isinstance(v, float) or v.__class__ is SF
def is_bool(v): return isinstance(v, bool) or (v.__class__ is S and v.w == 1)

def eq_vals(a, b):
    """isEqualTo on reference values -> bool or S"""
    if a is None or b is None: return False
    if is_num(a) and is_num(b): return a == b
    if is_bool(a) and is_bool(b):
        if a.__class__ is S or b.__class__ is S: return (a == b) if a.__class__ is S else (b == a)
        return a == b
    if isinstance(a, bytes) and isinstance(b, bytes): return a == b
    if isinstance(a, Arr) and isinstance(b, Arr):
        if a is b: return True          # one and the same array object (whatever it holds, unset slots included)
        if len(a.v) != len(b.v): return False
        r = True
        for x, y in zip(a.v, b.v):
            e = eq_vals(x, y)
            if e.__class__ is S:
                if not e: return False
            elif not e: return False
        return r
    if isinstance(a, Code) and isinstance(b, Code): return block(a.stmts) == block(b.stmts)
    if isinstance(a, HMap) and isinstance(b, HMap): return a is b
    return False

class Ref:
    def __init__(s, holes_f=None, holes_b=None, max_while=10000):
        s.holes_f = holes_f or {}; s.holes_b = holes_b or {}
        s.scopes = []            # dynamic chain of {'vars':{}, 'name':None}
        s.namespaces = {'missionnamespace': {}, 'uinamespace': {}, 'parsingnamespace': {}, 'profilenamespace': {}}
        s.ns_stack = ['missionnamespace']     # innermost dynamically enclosing with-do selects the namespace for globals
        s.spawned = []
        s.trace = []; s.trace_ids = []; s.flags = set()
        s.max_while = max_while
        s.steps = 0
    # ---- scopes
    def push(s): s.scopes.append(dict(vars={}, name=None))
    def pop(s): s.scopes.pop()
    def lookup(s, name):
        n = name.lower()
        if n.startswith('_'):
            for sc in reversed(s.scopes):
                if n in sc['vars']: return sc['vars'][n]
            return None
        return s.namespaces[s.ns_stack[-1]].get(n)
    def assign(s, name, v):
        n = name.lower()
        if n.startswith('_'):
            for sc in reversed(s.scopes):
                if n in sc['vars']: sc['vars'][n] = v; return
            s.scopes[-1]['vars'][n] = v
        else: s.namespaces[s.ns_stack[-1]][n] = v
    def bind_local(s, name, v): s.scopes[-1]['vars'][name.lower()] = v
    # ---- blocks
    def run_block(s, stmts, binds=None, own_scope=True):
        """execute statements in a fresh scope; returns value of the last statement executed (None if none).
        exitWith terminates the block: returns ('died', value)."""
        if own_scope: s.push()
        try:
            if binds:
                for k, v in binds.items(): s.bind_local(k, v)
            val = None
            for st in stmts:
                s.steps += 1
                if s.steps > 200000: raise RefUnsupported('reference step budget')
                val = s.stmt(st)
            return ('ok', val)
        except _ExitWith as e:
            return ('died', e.value)
        except _BreakOut as e:
            if s.scopes[-1]['name'] is not None and s.scopes[-1]['name'] == e.name.lower(): return ('died', e.value)
            if e.name == b'': return ('died', e.value)
            raise
        finally:
            if own_scope: s.pop()
    def block_value(s, stmts, binds=None):
        return s.run_block(stmts, binds)[1]
    def stmt(s, st):
        k = st[0]
        if k == 'assign': s.assign(st[1], s.ev(st[2])); return None
        if k == 'private': s.bind_local(st[1], s.ev(st[2])); return None
        if k == 'privdecl':
            for n in st[1]: s.bind_local(n, None)
            return None
        if k == 'params':
            this = s.lookup('_this')
            vals = this.v if isinstance(this, Arr) else [this]
            for i, n in enumerate(st[1]): s.bind_local(n, vals[i] if i < len(vals) else None)
            return True
        if k == 'exitwith':
            c = s.ev(st[1])
            if s.truth(c):
                raise _ExitWith(s.block_value(st[2]))
            return None
        if k == 'case':
            sw = s._switch_stack[-1]
            v = s.ev(st[1])
            if sw['matched'] or s.truth(eq_vals(sw['value'], v)):
                sw['matched'] = True
                if st[2] is not None: raise _SwitchHit(st[2])
            return None
        if k == 'default':
            s._switch_stack[-1]['default'] = st[1]; return None
        if k == 'throw': raise _Throw(s.ev(st[1]))
        if k == 'scopename': s.scopes[-1]['name'] = st[1].lower(); return None
        if k == 'breakout': raise _BreakOut(st[1], s.ev(st[2]) if st[2] is not None else None)
        if k == 'trace':
            v = s.ev(st[1]); s.trace.append(snapshot(v)); s.trace_ids.append(idform(Arr([v]), {}, [])); return Arr([v])    # trace__ is a unary operator returning its operand
        return s.ev(st)
    def truth(s, c):
        if c.__class__ is S: return bool(c)       # forks / follows the path condition
        if isinstance(c, bool): return c
        raise RefError('boolean expected')
    # ---- expressions
    def ev(s, e):
        k = e[0]
        if k == 'num': return rt.r32(float(e[1]))
        if k == 'hole': return s.holes_f[e[1]]
        if k == 'bhole': return s.holes_b[e[1]]
        if k == 'bool': return e[1]
        if k == 'str': return e[1]
        if k == 'nil': return None
        if k == 'nul' and e[1].lower() == 'createhashmap': return HMap()
        if k == 'var': return s.lookup(e[1])
        if k == 'arr': return Arr([s.ev(x) for x in e[1]])
        if k == 'code': return Code(e[1])
        if k == 'un': return s.unary(e[1], s.ev(e[2]))
        if k == 'bin':
            l = s.ev(e[2]); r = s.ev(e[3])
            return s.binary(e[1], l, r)
        if k == 'if':
            c = s.ev(e[1])
            if s.truth(c): return s.scope_result(e[2])
            if e[3] is not None: return s.scope_result(e[3])
            return None
        if k == 'call':
            a = s.ev(e[1]) if e[1] is not None else s.lookup('_this')
            c = s.ev(e[2])
            if not isinstance(c, Code): raise RefError('call expects code')
            return s.scope_result(c.stmts, {'_this': a})
        if k == 'lazy':
            l = s.ev(e[2])
            if e[1] == 'and':
                if not s.truth(l): return False
            else:
                if s.truth(l): return True
            r = s.scope_result(e[3])
            if not is_bool(r): raise RefError('lazy operand must yield boolean')
            return r
        if k == 'while':
            n = 0
            while True:
                c = s.scope_result(e[1])
                if c is None or not is_bool(c): raise RefError('while condition must be boolean')
                if not s.truth(c): break
                st, v = s.run_block(e[2])
                if st == 'died': return v
                n += 1
                if n >= s.max_while: break
            return None
        if k == 'for':
            frm = s.ev(e[2]); to = s.ev(e[3]); step = s.ev(e[4]) if e[4] is not None else 1.0
            v = frm; last = None
            pos = step > 0
            it = 0
            while True:
                cond = (v <= to) if s.truth(pos) else (v >= to)
                if not s.truth(cond): break
                st, last = s.run_block(e[5], {e[1]: v})
                if st == 'died': return last
                v = rt.r32(v + step)
                it += 1
                if it > 64: raise RefUnsupported('for loop longer than 64 iterations')
            return last
        if k == 'foreach':
            arr = s.ev(e[2])
            if not isinstance(arr, Arr): raise RefError('forEach expects array')
            last = None
            for i in range(len(arr.v)):
                st, last = s.run_block(e[1], {'_x': arr.v[i], '_foreachindex': float(i)})
                if st == 'died': return last
            return last
        if k == 'countc':
            arr = s.ev(e[2]); n = 0.0
            for x in list(arr.v):
                st, r = s.run_block(e[1], {'_x': x})
                if st == 'died': return r
                if not is_bool(r): raise RefError('count expects boolean')
                if s.truth(r): n += 1.0
            return n
        if k == 'selectc':
            arr = s.ev(e[1]); out = []
            for x in list(arr.v):
                st, r = s.run_block(e[2], {'_x': x})
                if st == 'died': return r
                if not is_bool(r): raise RefError('select expects boolean')
                if s.truth(r): out.append(x)
            return Arr(out)
        if k == 'apply':
            arr = s.ev(e[1]); out = []
            for x in list(arr.v):
                st, r = s.run_block(e[2], {'_x': x})
                if st == 'died': return r
                out.append(r)
            return Arr(out)
        if k == 'findif':
            arr = s.ev(e[1])
            for i, x in enumerate(list(arr.v)):
                st, r = s.run_block(e[2], {'_x': x})
                if st == 'died': return r
                if not is_bool(r): raise RefError('findIf expects boolean')
                if s.truth(r): return float(i)
            return -1.0
        if k == 'switch':
            v = s.ev(e[1])
            if not hasattr(s, '_switch_stack'): s._switch_stack = []
            sw = dict(value=v, matched=False, default=None); s._switch_stack.append(sw)
            hit = None
            try:
                st, _ = s.run_block(e[2])
            except _SwitchHit as h:
                hit = h.code
            finally:
                s._switch_stack.pop()
            if hit is not None: return s.scope_result(hit)
            if sw['default'] is not None: return s.scope_result(sw['default'])
            return None
        if k == 'try':
            depth = len(s.scopes)
            try:
                return s.scope_result(e[1])
            except _Throw as t:
                del s.scopes[depth:]
                return s.scope_result(e[2], {'_exception': t.value})
        if k == 'isnil':
            return s.lookup(e[1]) is None
        if k == 'refvalue': return s.deep_copy(e[1]) if isinstance(e[1], Arr) else e[1]
        if k == 'err': raise RefError('injected erroring operation %d' % e[1])
        if k == 'except':
            depth = len(s.scopes); nsd = len(s.ns_stack); swd = len(getattr(s, '_switch_stack', []))
            try:
                return s.scope_result(e[1])
            except RefError as er:
                del s.scopes[depth:]; del s.ns_stack[nsd:]
                if hasattr(s, '_switch_stack'): del s._switch_stack[swd:]
                s.handled = getattr(s, 'handled', 0) + 1
                return s.scope_result(e[2], {'_exception': ('errtext',)})
        if k == 'with':
            s.ns_stack.append(e[1].lower())
            try: return s.scope_result(e[2])
            finally: s.ns_stack.pop()
        if k == 'getvar': return s.namespaces[e[1].lower()].get(e[2].lower())
        if k == 'setvar':
            s.namespaces[e[1].lower()][e[2].lower()] = s.ev(e[3]); return None
        if k == 'spawn':
            s.spawned.append((s.ev(e[1]), e[2])); return ('script',)
        raise ValueError(e)
    def scope_result(s, stmts, binds=None):
        st, v = s.run_block(stmts, binds)
        return v
    def unary(s, op, v):
        o = op.lower()
        if v is None: raise RefError('nil operand')
        if o == '-' and is_num(v): return -v
        if o == '+' and is_num(v): return v
        if o == '+' and isinstance(v, Arr): return s.deep_copy(v)
        if o == '!' or o == 'not':
            if not is_bool(v): raise RefError('type')
            return (~v) if v.__class__ is S else (not v)
        if o == 'count' and isinstance(v, Arr): return float(len(v.v))
        if o == 'count' and isinstance(v, bytes): return float(len(v))
        if o == 'abs' and is_num(v): return rt.fround('fabs', v, 32)
        if o == 'floor' and is_num(v): return rt.fround('floor', v, 32)
        if o == 'ceil' and is_num(v): return rt.fround('ceil', v, 32)
        if o == 'isnil_val': return v is None
        if o == 'typename': return b'ARRAY' if isinstance(v, Arr) else b'SCALAR' if is_num(v) else b'BOOL' if is_bool(v) else b'STRING' if isinstance(v, bytes) else b'CODE' if isinstance(v, Code) else b'OTHER'
        if o == 'count' and isinstance(v, HMap): return float(len(v.items))
        if o == 'keys' and isinstance(v, HMap): return ('keyset', [k for k, x in v.items])
        if o == '+' and isinstance(v, HMap): return HMap(v.items)
        if o == 'createhashmapfromarray' and isinstance(v, Arr):
            m = HMap()
            for it in v.v:
                if not isinstance(it, Arr) or len(it.v) != 2: raise RefError('pair expected')
                s.hm_set(m, it.v[0], it.v[1])
            return m
        if o == 'str': return ('strof', v)          # str/compile are only modelled as a pair: call compile str v == deep copy of v
        if o == 'compile' and isinstance(v, tuple) and v[0] == 'strof': return Code([('refvalue', v[1])])
        if o == 'reverse' and isinstance(v, Arr): v.v.reverse(); return None
        raise RefUnsupported('unary ' + op)
    def deep_copy(s, a):
        return Arr([s.deep_copy(x) if isinstance(x, Arr) else x for x in a.v])
    def binary(s, op, l, r):
        o = op.lower()
        if l is None or r is None: raise RefError('nil operand')
        if is_num(l) and is_num(r):
            if o == '+': return rt.r32(l + r)
            if o == '-': return rt.r32(l - r)
            if o == '*': return rt.r32(l * r)
            if o == '<': return l < r
            if o == '<=': return l <= r
            if o == '>': return l > r
            if o == '>=': return l >= r
            if o == '==': return l == r
            if o == '!=': return l != r
            if o == 'max': return rt.select(l > r, l, r, 'f32') if (l.__class__ is SF or r.__class__ is SF) else max(l, r)
            if o == 'min': return rt.select(l < r, l, r, 'f32') if (l.__class__ is SF or r.__class__ is SF) else min(l, r)
            if o == 'isequalto': return l == r
        if is_bool(l) and is_bool(r):
            if o in ('&&', 'and'): return (l & r) if (l.__class__ is S or r.__class__ is S) else (l and r)
            if o in ('||', 'or'): return (l | r) if (l.__class__ is S or r.__class__ is S) else (l or r)
            if o in ('isequalto',): return eq_vals(l, r)
        if isinstance(l, bytes) and isinstance(r, bytes):
            if o == '+': return l + r
            if o == '==': return l.lower() == r.lower()
            if o == 'isequalto': return l == r
        if isinstance(l, Arr):
            if o == 'pushback':
                if contains(r, l): raise RefError('array recursion refused')
                l.v.append(r); return float(len(l.v) - 1)
            if o == 'pushbackunique':
                for x in l.v:
                    if s.truth(eq_vals(x, r)): return -1.0
                if contains(r, l): raise RefError('array recursion refused')
                l.v.append(r); return float(len(l.v) - 1)
            if o == 'deleteat' and is_num(r) and r.__class__ is not SF:
                i = int(r)
                if i < 0 or i >= len(l.v): return None
                return l.v.pop(i)
            if o == 'resize' and is_num(r) and r.__class__ is not SF:
                n = int(r)
                if n < 0: raise RefError('negative size')
                del l.v[n:]
                while len(l.v) < n: l.v.append(None)
                return None
            if o == 'sort' and isinstance(r, bool):
                if all(isinstance(x, float) for x in l.v): l.v.sort(reverse=not r); return None
                raise RefUnsupported('sort of non-numbers')
            if o == '-' and isinstance(r, Arr): return Arr([x for x in l.v if not any(s.truth(eq_vals(x, y)) for y in r.v)])
            if o == '+' and isinstance(r, Arr): return Arr(l.v + r.v)
            if o == 'select' and is_num(r):
                if r.__class__ is SF: raise RefUnsupported('symbolic index')
                i = int(math.floor(r + 0.5)) if r >= 0 else -1
                if i < 0 or i > len(l.v): raise RefError('index')
                if i == len(l.v): return None
                return l.v[i]
            if o == 'isequalto' and isinstance(r, Arr): return eq_vals(l, r)
            if o == 'append' and isinstance(r, Arr):
                if any(contains(x, l) for x in r.v): raise RefError('array recursion refused')
                l.v.extend(list(r.v)); return None
            if o == 'select' and isinstance(r, Arr) and len(r.v) == 2 and all(isinstance(x, float) for x in r.v):
                a, n = int(r.v[0]), int(r.v[1])
                if a < 0 or n < 0 or a > len(l.v): raise RefError('range')
                return Arr(l.v[a:a + n])
        if isinstance(l, HMap):
            if o == 'set' and isinstance(r, Arr) and len(r.v) == 2:
                if contains(r.v[1], l) or contains(r.v[0], l):
                    s.flags.add('hashmap-cycle'); raise RefError('hashmap recursion refused')
                s.hm_set(l, r.v[0], r.v[1]); return None
            if o == 'get':
                i = s.hm_find(l, r); return l.items[i][1] if i is not None else None
            if o == 'deleteat':
                i = s.hm_find(l, r)
                if i is None: return None
                return l.items.pop(i)[1]
        if isinstance(r, HMap) and o == 'in': return s.hm_find(r, l) is not None
        if isinstance(l, Arr) and o == 'set' and isinstance(r, Arr) and len(r.v) == 2 and is_num(r.v[0]) and r.v[0].__class__ is not SF:
            i = int(r.v[0])
            if i < 0: raise RefError('negative index')
            if contains(r.v[1], l): raise RefError('array recursion refused')
            while len(l.v) <= i: l.v.append(None)
            l.v[i] = r.v[1]; return None
        if o == 'isequalto': return eq_vals(l, r)
        raise RefUnsupported('binary %s on %s,%s' % (op, type(l).__name__, type(r).__name__))
    def hm_find(s, m, k):
        for i, (kk, vv) in enumerate(m.items):
            if s.truth(eq_vals(kk, k)): return i
        return None
    def hm_set(s, m, k, v):
        i = s.hm_find(m, k)
        if i is not None: m.items[i] = (m.items[i][0], v)
        else: m.items.append((s.deep_copy(k) if isinstance(k, Arr) else k, v))
    def run(s, stmts):
        """top-level script: returns ('ok', value) | ('error', msg) | ('throw', value)"""
        try:
            st, v = s.run_block(stmts)
            while s.spawned:
                a, code = s.spawned.pop(0)
                saved = (s.scopes, s.ns_stack); s.scopes = []; s.ns_stack = ['missionnamespace']
                try: s.run_block(code, {'_this': a})
                except RefError as e:
                    # an unhandled error in any script ends the run (the property: 'without a handler, the run ends and is reported as failed')
                    s.spawn_errors = getattr(s, 'spawn_errors', 0) + 1
                    s.scopes, s.ns_stack = saved
                    return ('error', 'in spawned script: ' + str(e))
                finally: s.scopes, s.ns_stack = saved
            return ('ok', v)
        except RefError as e: return ('error', str(e))
        except _Throw as t: return ('throw', t.value)
        except _BreakOut as b: return ('error', 'breakOut to unknown scope')
        except _SwitchHit: return ('error', 'case outside switch')

# ------------------------------------------------------------------ comparing VM observations with reference values
def same(vmv, refv):
    """vmv: vmh.Host.pyval result; refv: snapshot() result. returns True/False or z3 Bool (for symbolic leaves)"""
    import z3
    if refv is None or vmv is None: return refv is None and vmv is None
    if isinstance(refv, list):
        if not isinstance(vmv, list) or len(vmv) != len(refv): return False
        conds = []
        for a, b in zip(vmv, refv):
            c = same(a, b)
            if c is False: return False
            if c is not True: conds.append(c)
        return z3.And(*conds) if conds else True
    if is_num(refv):
        if not is_num(vmv): return False
        if refv.__class__ is SF or vmv.__class__ is SF:
            a = vmv.e if vmv.__class__ is SF else z3.FPVal(vmv, rt.F32)
            b = refv.e if refv.__class__ is SF else z3.FPVal(refv, rt.F32)
            return z3.Or(z3.fpEQ(a, b), z3.And(z3.fpIsNaN(a), z3.fpIsNaN(b)))
        return vmv == refv or (vmv != vmv and refv != refv)
    if is_bool(refv):
        if not is_bool(vmv): return False
        if refv.__class__ is S or vmv.__class__ is S:
            a = vmv.e if vmv.__class__ is S else z3.BoolVal(vmv)
            b = refv.e if refv.__class__ is S else z3.BoolVal(refv)
            return a == b
        return vmv == refv
    if isinstance(refv, bytes): return isinstance(vmv, bytes) and vmv == refv
    if isinstance(refv, tuple) and refv[0] == 'keyset':
        # unordered: every reference key must be matched by exactly one VM element
        if not isinstance(vmv, list) or len(vmv) != len(refv[1]): return False
        left = list(vmv)
        for k in refv[1]:
            hit = None
            for i, x in enumerate(left):
                if same(x, snapshot(k)) is True: hit = i; break
            if hit is None: return False
            left.pop(hit)
        return True
    if isinstance(refv, tuple) and refv[0] == 'hashmap': return isinstance(vmv, tuple) and vmv[0] == 'other'
    if isinstance(refv, tuple) and refv[0] == 'errtext': return vmv is not None
    if isinstance(refv, tuple) and refv[0] == 'script': return True
    if isinstance(refv, tuple) and refv[0] == 'code':
        return isinstance(vmv, tuple) and vmv[0] == 'code'
    return False
