"""vmh: harness-side helper for properties that run the real VM (parser + runtime + operators) inside engine E2."""
import os, sys, time
HERE = os.path.dirname(os.path.abspath(__file__)); VERIF = os.path.dirname(HERE)
sys.path.insert(0, os.path.join(VERIF, 'engine'))
import loader, symrt as rt, cxxlib, explore, vfs
from symrt import S, SF

VM_SOURCES = ['/verif/harness/w_vm.cpp', 'runtime/runtime.cpp', 'runtime/frame.cpp', 'runtime/logging.cpp', 'runtime/d_scalar.cpp', 'runtime/d_array.cpp', 'runtime/fileio.cpp',
              'runtime/diagnostics/stacktrace.cpp', 'runtime/parser/preprocessor.cpp', 'parser/sqf/parser.tab.cc', 'parser/sqf/sqf_parser.cpp', 'parser/config/parser.tab.cc',
              'parser/config/config_parser.cpp', 'parser/preprocessor/default.cpp', 'fileio/default.cpp', 'operators/ops_generic.cpp', 'operators/ops_logic.cpp', 'operators/ops_math.cpp',
              'operators/ops_string.cpp', 'operators/ops_hashmap.cpp', 'operators/ops_namespace.cpp', 'operators/ops_sqfvm.cpp', 'operators/ops_config.cpp', 'operators/ops_diag.cpp',
              'operators/ops_text.cpp', 'operators/dlops.cpp', 'parser/assembly/parser.tab.cc', 'parser/assembly/assembly_parser.cpp', 'parser/sqf/sqf_formatter.cpp']
VM_ROOTS = ['w_vm_new', 'w_vm_delete', 'w_vm_runtime', 'w_vm_run_sqf', 'w_vm_state', 'w_vm_execute', 'w_vm_context_count', 'w_val_kind', 'w_val_scalar', 'w_val_bool', 'w_val_strlen',
            'w_val_strcopy', 'w_val_arrlen', 'w_val_arrat', 'w_val_dataptr', 'w_val_tostring', 'w_vm_compile', 'w_vm_push_code', 'w_iset_size', 'w_iset_tostring', 'w_iset_free',
            'w_vm_mon_enable', 'w_vm_set_cfg', 'w_ctx_values_size', 'w_ctx_frames_size', 'w_ctx_frame_vsp', 'w_ctx_value_at', 'w_ctx_ptr', 'w_ctx_suspended', 'w_vm_parse_config', 'w_vm_preprocess', 'w_vm_register_dummy', 'w_str_quote', 'w_str_unquote', 'w_vm_prettify', 'w_val_new_scalar', 'w_val_new_bool', 'w_val_new_string', 'w_val_new_nil', 'w_val_new_array', 'w_val_equals', 'w_val_hash', 'w_vm_add_mapping', 'w_vm_get_info', 'w_vm_read_file', 'w_vm_run_sqf_at', 'w_vm_add_pbo']
OPS = dict(generic=1, logic=2, math=4, string=8, hashmap=16, namespace=32, sqfvm=64, config=128, diag=256, text=512)
OPS_DEFAULT = 1 | 2 | 4 | 8 | 16 | 32 | 64 | 128 | 256 | 512

def s32(v):
    if v.__class__ is S: return v
    v &= 0xFFFFFFFF
    return v - (1 << 32) if v >> 31 else v

class Host:
    """one per process image; state is copied by fork"""
    def __init__(s, m, info):
        s.m = m; s.N = m.NAMES; s.info = info
        s.logs = []; s.traces = []; s.holes_f = {}; s.holes_b = {}; s.events = []
        s.on_event = None
        rt.EXT['verif_log'] = s._log; rt.EXT['verif_hole_f'] = s._hole_f; rt.EXT['verif_hole_b'] = s._hole_b
        rt.EXT['verif_trace'] = s._trace; rt.EXT['verif_event'] = s._event
    # ---- externals called from the wrapper
    def _log(s, vm, level, code, msg, n):
        s.logs.append((s32(level), code, rt.read_bytes(msg, n).decode('latin1')))
    def _hole_f(s, i):
        return s.holes_f[s32(i)]
    def _hole_b(s, i):
        v = s.holes_b[s32(i)]
        if v.__class__ is S: return v.zext(32)
        return 1 if v else 0
    def _trace(s, vm, vptr):
        s.traces.append(s.pyval(vptr))
        if getattr(s, 'want_ids', False): s.trace_ids.append(s.idform(vptr, {}, []))
    def idform(s, vptr, seen, stack):
        """identity structure of nested arrays: ('arr', k, [children]) with k = first-occurrence index of the array object; ('cycle', k) if the
        object is its own ancestor; leaves are None"""
        N = s.N
        if N['w_val_kind'](vptr) != 4: return None
        dp = N['w_val_dataptr'](vptr)
        if dp in stack: return ('cycle', seen[dp])
        if dp not in seen: seen[dp] = len(seen)
        stack.append(dp)
        try:
            n = N['w_val_arrlen'](vptr)
            return ('arr', seen[dp], [s.idform(N['w_val_arrat'](vptr, i), seen, stack) for i in range(n)])
        finally: stack.pop()
    def _event(s, kind, a, b):
        if s.on_event: return s.on_event(kind, a, b) & 0xFFFFFFFF
        s.events.append((kind, a, b)); return 0
    # ---- VM control
    def new_vm(s, ops=OPS_DEFAULT, max_runtime_ms=0, classname_check=1):
        return s.N['w_vm_new'](ops, max_runtime_ms, classname_check)
    def run(s, vm, code, preprocess=0):
        if isinstance(code, str): code = code.encode()
        buf = rt.make_bytes(code, 'input', 'sqf source')
        r = s32(s.N['w_vm_run_sqf'](vm, buf, len(code), preprocess))
        return r
    def state(s, vm): return s32(s.N['w_vm_state'](vm))
    def execute(s, vm, action): return s32(s.N['w_vm_execute'](vm, action))
    def reset_obs(s):
        s.logs = []; s.traces = []; s.events = []; s.trace_ids = []
    # ---- value inspection: nil -> None, scalar -> float|SF, bool -> bool|S, string -> bytes|list, array -> list, code -> ('code', text), other -> ('other', text)
    def pyval(s, vptr, depth=0):
        N = s.N
        k = N['w_val_kind'](vptr)
        if k == 0: return None
        if k == 1: return N['w_val_scalar'](vptr)
        if k == 2:
            b = N['w_val_bool'](vptr)
            return (b != 0) if b.__class__ is S else bool(b)
        if k == 3:
            n = N['w_val_strlen'](vptr)
            buf = rt.new_obj(max(n, 1), 'harness')
            N['w_val_strcopy'](vptr, buf, n)
            vals = rt.read_vals(buf, n)
            rt.OBJ.pop(buf >> 32, None)
            if any(v.__class__ is S for v in vals): return ('symstr', vals)
            return bytes(vals)
        if k == 4:
            n = N['w_val_arrlen'](vptr)
            if depth > 12: return ('deep',)      # cyclic or very deep container: the caller reports it (idform)
            return [s.pyval(N['w_val_arrat'](vptr, i), depth + 1) for i in range(n)]
        return ('code' if k == 5 else 'other', s.tostring(vptr))
    def tostring(s, vptr):
        cap = 4096
        buf = rt.new_obj(cap, 'harness')
        n = s.N['w_val_tostring'](vptr, buf, cap)
        r = rt.read_bytes(buf, min(n, cap)); rt.OBJ.pop(buf >> 32, None)
        return r
    def compile_listing(s, vm, code):
        """parse SQF text with the real parser and return the instruction listing (list of bytes) or None on parse failure"""
        if isinstance(code, str): code = code.encode()
        buf = rt.make_bytes(code, 'input', 'sqf source')
        h = s.N['w_vm_compile'](vm, buf, len(code))
        if h == 0: return None
        n = s.N['w_iset_size'](h); out = []
        tb = rt.new_obj(1024, 'harness')
        for i in range(n):
            k = s.N['w_iset_tostring'](h, i, tb, 1024)
            out.append(rt.read_bytes(tb, min(k, 1024)))
        rt.OBJ.pop(tb >> 32, None)
        s.N['w_iset_free'](h)
        return out
    def parse_config(s, vm, text):
        if isinstance(text, str): text = text.encode()
        buf = rt.make_bytes(text, 'input', 'config source')
        return s32(s.N['w_vm_parse_config'](vm, buf, len(text)))
    def preprocess(s, vm, text, cap=65536):
        if isinstance(text, str): text = text.encode()
        buf = rt.make_bytes(text, 'input', 'preprocessor source')
        ob = rt.new_obj(cap, 'harness')
        n = s.N['w_vm_preprocess'](vm, buf, len(text), ob, cap)
        if n >> 63: return None
        r = rt.read_vals(ob, min(n, cap)); rt.OBJ.pop(ob >> 32, None)
        return r
    def cs(s, b):
        if isinstance(b, str): b = b.encode()
        return rt.make_bytes(b + b'\0', 'input')
    def add_mapping(s, vm, phys, virt): s.N['w_vm_add_mapping'](vm, s.cs(phys), s.cs(virt))
    def get_info(s, vm, view, cur_phys=b'', cur_virt=b''):
        op = rt.new_obj(1024, 'harness'); ov = rt.new_obj(1024, 'harness')
        r = s32(s.N['w_vm_get_info'](vm, s.cs(view), s.cs(cur_phys), s.cs(cur_virt), op, ov, 1024))
        if not r: return None
        return rt.cstr(op), rt.cstr(ov)
    def run_at(s, vm, code, phys, virt):
        if isinstance(code, str): code = code.encode()
        buf = rt.make_bytes(code, 'input', 'sqf source')
        return s32(s.N['w_vm_run_sqf_at'](vm, buf, len(code), s.cs(phys), s.cs(virt)))
    def errors(s):
        return [l for l in s.logs if l[0] in (0, 1)]

_loaded = {}
def load(extra_sources=(), extra_roots=(), name='vm', flags=()):
    key = (name, tuple(extra_sources), tuple(extra_roots), tuple(flags))
    if key in _loaded: return _loaded[key]
    py, info = loader.build_unit(name, VM_SOURCES + list(extra_sources), VM_ROOTS + list(extra_roots), extra_flags=flags)
    t = time.time()
    m = loader.load_unit(py)
    info['load_s'] = round(time.time() - t, 2)
    info['functions_translated'] = len(m.DEFINED); info['externals'] = sorted(m.EXTERNAL)
    h = Host(m, info)
    _loaded[key] = h
    return h

def f32_const(name, lo, hi, ints=True):
    """fresh symbolic float constrained to the integers lo..hi (ints=True) or to the closed interval"""
    import z3
    x = rt.fresh_f32(name)
    if ints:
        rt.assume(z3.Or(*[z3.fpEQ(x.e, z3.FPVal(float(i), rt.F32)) for i in range(lo, hi + 1)]))
        # exclude -0 so that the value is one of the listed numerals exactly
        rt.assume(z3.Not(z3.And(z3.fpIsZero(x.e), z3.fpIsNegative(x.e))))
    else:
        rt.assume(z3.And(z3.fpGEQ(x.e, z3.FPVal(float(lo), rt.F32)), z3.fpLEQ(x.e, z3.FPVal(float(hi), rt.F32))))
    return x
