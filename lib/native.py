"""native: build and run native (sanitized) replays of counterexamples from /repo's working tree."""
import os, sys, subprocess, hashlib, time
from concurrent.futures import ThreadPoolExecutor
HERE = os.path.dirname(os.path.abspath(__file__)); VERIF = os.path.dirname(HERE)
REPO = os.environ.get('VERIF_REPO', '/repo')
NDIR = os.path.join(VERIF, 'work', 'native')
FLAGS = ['-std=c++17', '-O1', '-g', '-fno-omit-frame-pointer', '-DSQFVM_BUILD', '-DDISABLE_CLIPBOARD', '-Wno-builtin-macro-redefined', '-D__DATE__="Jan  1 2000"', '-D__TIME__="00:00:00"', '-I' + os.path.join(REPO, 'src'), '-I' + os.path.join(REPO, 'include/tclap-1.2.2/include'), '-I' + os.path.join(VERIF, 'harness')]
SAN = ['-fsanitize=address,undefined', '-fno-sanitize-recover=undefined']

def _obj(src, flags):
    os.makedirs(NDIR, exist_ok=True)
    pre = subprocess.run(['clang++-14'] + flags + ['-E', '-P', src], stdout=subprocess.PIPE, stderr=subprocess.PIPE)
    if pre.returncode: raise RuntimeError(pre.stderr.decode()[-2000:])
    key = hashlib.sha1(pre.stdout + ' '.join(flags).encode()).hexdigest()[:20]
    out = os.path.join(NDIR, os.path.basename(src) + '.' + key + '.o')
    if not os.path.exists(out):
        r = subprocess.run(['clang++-14'] + flags + ['-c', src, '-o', out + '.tmp'], stdout=subprocess.PIPE, stderr=subprocess.PIPE)
        if r.returncode: raise RuntimeError(r.stderr.decode()[-2000:])
        os.replace(out + '.tmp', out)
    return out

def build(name, sources, sanitize=True, flags=()):
    srcs = [s if os.path.isabs(s) else os.path.join(REPO, 'src', s) for s in sources]
    flags = FLAGS + list(flags) + (SAN if sanitize else [])
    with ThreadPoolExecutor(16) as ex: objs = list(ex.map(lambda s: _obj(s, flags), srcs))
    key = hashlib.sha1(' '.join(objs).encode()).hexdigest()[:16]
    exe = os.path.join(NDIR, '%s.%s' % (name, key))
    if not os.path.exists(exe):
        r = subprocess.run(['clang++-14'] + (SAN if sanitize else []) + objs + ['-o', exe + '.tmp', '-ldl', '-lpthread', '-lstdc++fs'], stdout=subprocess.PIPE, stderr=subprocess.PIPE)
        if r.returncode: raise RuntimeError(r.stderr.decode()[-2000:])
        os.replace(exe + '.tmp', exe)
    return exe

def run(exe, args, timeout=20, stdin=None, mem_mb=8192):
    env = dict(os.environ, ASAN_OPTIONS='detect_leaks=0:abort_on_error=0:exitcode=77:hard_rss_limit_mb=%d' % mem_mb, UBSAN_OPTIONS='print_stacktrace=0:halt_on_error=1:exitcode=78')
    try:
        r = subprocess.run([exe] + list(args), input=stdin, stdout=subprocess.PIPE, stderr=subprocess.PIPE, timeout=timeout, env=env)
        return r.returncode, r.stdout.decode('latin1'), r.stderr.decode('latin1')
    except subprocess.TimeoutExpired as e:
        return 'timeout', (e.stdout or b'').decode('latin1'), (e.stderr or b'').decode('latin1')

def classify(rc, out, err):
    """(reproduced?, description) for crash-type findings"""
    if rc == 'timeout': return True, 'native replay did not terminate within the time limit'
    if rc == 77 or 'AddressSanitizer' in err: return True, 'AddressSanitizer: ' + (err.split('ERROR: AddressSanitizer:')[1].split('\n')[0].strip() if 'ERROR: AddressSanitizer:' in err else 'error')
    if rc == 78 or 'runtime error:' in err: return True, 'UBSan: ' + err.split('runtime error:')[1].split('\n')[0].strip() if 'runtime error:' in err else 'UBSan error'
    if isinstance(rc, int) and rc < 0: return True, 'killed by signal %d' % -rc
    if 'terminate called' in err: return True, 'uncaught C++ exception: ' + err.strip().split('\n')[-1][:200]
    if rc == 134: return True, 'abort'
    return False, 'exit code %s' % rc
