#!/bin/bash
# seed_sweep.sh [IDs...]: for every seeded change apply it to /repo's working tree, run the property's quick check, record which
# obligations report it (seeded/<id>/check.log, meta.json caught_by), and restore the tree. Nothing else may use /repo meanwhile.
cd /verif
ids="$@"; [ -z "$ids" ] && ids=$(ls seeded)
for id in $ids; do
  p=seeded/$id/patch.rebased.diff; [ -f $p ] || p=seeded/$id/patch.diff
  if ! git -C /repo diff --quiet; then echo "$id: /repo working tree is not clean, stopping"; exit 2; fi
  if ! git -C /repo apply $PWD/$p; then echo "$id: patch does not apply"; continue; fi
  t0=$(date +%s)
  prop=${id:0:3}
  timeout 5400 ./check $prop --tier quick > /tmp/seed_$id.log 2>&1; rc=$?
  t1=$(date +%s)
  git -C /repo checkout -- .
  grep -E "^VIOLATION|^  obligation=|^KNOWN-FINDING|^$prop quick" /tmp/seed_$id.log | cut -c1-400 > seeded/$id/check.log
  echo "exit=$rc wall=$((t1-t0))s patch=$(basename $p) repo=$(git -C /repo rev-parse --short HEAD)" >> seeded/$id/check.log
  python3 - "$id" "$rc" <<'PY'
import json, re, sys
i, rc = sys.argv[1], int(sys.argv[2])
log = open('/verif/seeded/%s/check.log' % i).read()
keys = sorted(set(re.findall(r'obligation=(\S+) key=(\S+?):? ', log)))
m = json.load(open('/verif/seeded/%s/meta.json' % i))
m['caught'] = rc == 1 and bool(keys)
m['caught_by'] = sorted({o for o, k in keys}); m['violation_keys'] = [k for o, k in keys][:12]
json.dump(m, open('/verif/seeded/%s/meta.json' % i, 'w'), indent=1)
print(i, 'caught' if m['caught'] else 'MISSED (exit %d)' % rc, m['caught_by'])
PY
done
