#!/bin/bash
# run_all.sh [tier] [IDs...]: run every registered check in turn on /repo's current tree; one summary line per property in work/run_all.<tier>.log
cd /verif
tier=${1:-quick}; shift
ids="$@"; [ -z "$ids" ] && ids="C01 C02 C03 C04 C05 C06 C07 C08 C09 C10 C11 C12 C13 C14 C15 C16 C17 C18 C19 C20"
log=work/run_all.$tier.log; : > $log
for id in $ids; do
  t0=$(date +%s)
  timeout ${CHECK_TIMEOUT:-28000} ./check $id --tier $tier > work/run_all.$id.$tier.out 2>&1; rc=$?
  t1=$(date +%s)
  echo "$id exit=$rc wall=$((t1-t0))s $(grep -E "^$id $tier" work/run_all.$id.$tier.out | tail -1)" | tee -a $log
  grep -E "^VIOLATION|^KNOWN-FINDING|ENGINE ERROR" work/run_all.$id.$tier.out | cut -c1-300 >> $log
done
