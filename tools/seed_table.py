#!/usr/bin/env python3
"""writes the table of section 7 of DESIGN.md from seeded/*/meta.json (between the SEED_TABLE markers)"""
import json, os, re, glob
V = os.path.dirname(os.path.dirname(os.path.abspath(__file__)))
rows = ['| property | seeded change needs | reported by (obligations) | caught |', '|---|---|---|---|']
for d in sorted(glob.glob(os.path.join(V, 'seeded', 'C*'))):
    m = json.load(open(os.path.join(d, 'meta.json')))
    rows.append('| %s | %s | %s | %s |' % (os.path.basename(d), m.get('needs', '').replace('|', '/'), ', '.join('`%s`' % x for x in m.get('caught_by', [])) or '-', 'obsolete: no longer breaks the property on the repaired tree' if m.get('obsolete') else {True: 'yes', False: '**no**'}.get(m.get('caught'), 'not run')))
p = os.path.join(V, 'DESIGN.md'); s = open(p).read()
tbl = '<!-- SEED_TABLE_BEGIN -->\n' + '\n'.join(rows) + '\n<!-- SEED_TABLE_END -->'
if 'SEED_TABLE_PLACEHOLDER' in s: s = s.replace('SEED_TABLE_PLACEHOLDER', tbl)
else: s = re.sub(r'<!-- SEED_TABLE_BEGIN -->.*?<!-- SEED_TABLE_END -->', lambda m_: tbl, s, flags=re.S)
open(p, 'w').write(s)
print('\n'.join(rows))
