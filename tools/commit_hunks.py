#!/usr/bin/env python3
"""commit_hunks.py <message-file> <regex> [files...]: stage the hunks of the working-tree diff (of the given files) whose text matches regex, commit them"""
import sys, re, subprocess
msgf, rx = sys.argv[1], sys.argv[2]; files = sys.argv[3:]
diff = subprocess.run(['git', '-C', '/repo', 'diff', '-U3', '--'] + files, stdout=subprocess.PIPE).stdout.decode('latin1')
out = ''
for fd in re.split(r'(?m)^(?=diff --git )', diff):
    if not fd.strip(): continue
    parts = re.split(r'(?m)^(?=@@ )', fd)
    head, hunks = parts[0], parts[1:]
    sel = [h for h in hunks if re.search(rx, h)]
    if sel: out += head + ''.join(sel)
if not out: print('no hunks match'); sys.exit(1)
r = subprocess.run(['git', '-C', '/repo', 'apply', '--cached', '--recount', '-'], input=out.encode('latin1'))
if r.returncode: sys.exit(r.returncode)
subprocess.run(['git', '-C', '/repo', 'commit', '-q', '-F', msgf], check=True)
print(subprocess.run(['git', '-C', '/repo', 'log', '--oneline', '-1'], stdout=subprocess.PIPE).stdout.decode())
