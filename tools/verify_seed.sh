#!/bin/bash
# usage: verify_seed.sh <worktree> <dest seeded dir>   -- confirm a seeded change: with patch: builds, ctest 41/41, demo fails; without: demo passes
set -u
WT=$1; DEST=$2
LOG=$DEST/verify.log; mkdir -p $DEST
cp $WT/patch.diff $DEST/patch.diff
cp $WT/demo.sh $DEST/demo.sh; [ -d $WT/demo ] && rm -rf $DEST/demo && cp -r $WT/demo $DEST/demo
{
echo "== with change"; git -C $WT diff --stat -- src
cmake --build $WT/_build --target sqfvm libsqfvm -- -j8 >/dev/null 2>&1 || { echo BUILD-FAIL; exit 2; }
ctest --test-dir $WT/_build -j8 --timeout 900 2>&1 | tail -3
bash $WT/demo.sh >/dev/null 2>&1; echo "demo exit with change: $?"
echo "== without change"
git -C $WT apply -R $DEST/patch.diff
cmake --build $WT/_build --target sqfvm libsqfvm -- -j8 >/dev/null 2>&1 || { echo BUILD-FAIL-ORIG; }
bash $WT/demo.sh >/dev/null 2>&1; echo "demo exit without change: $?"
git -C $WT apply $DEST/patch.diff
} > $LOG 2>&1
cat $LOG
