#!/usr/bin/env python3
"""regenerates MANIFEST.json from the table below (keeps it valid and in sync with props/)"""
import json, os
V = os.path.dirname(os.path.dirname(os.path.abspath(__file__)))
ids = [json.loads(l)['id'] for l in open(os.path.join(V, 'properties.jsonl'))]
TECH = 'symbolic execution of the LLVM IR of the real code (own IR->Python translator + forking executor, z3 decides every branch/assertion); counterexamples replayed on a native ASan/UBSan build'
TRUST = 'Trusted base: ll2py/symrt translation and memory model (every reported counterexample is re-run natively), cxxlib models of the libstdc++/libc pieces outside the IR (locale facets, number formatting via libc, hash_bytes, prime rehash policy), '
CLAIMS = {
 'C10': ('bounded exhaustive symbolic execution of the real SQF/config tokenizers, preprocessor reader, bison parsers and preprocessor: every byte string up to the stated length (full byte range for the scanners; a 20+-symbol lexical alphabet for whole front ends) and every single-byte mutation / truncation of seed texts; memory safety, no escaping exception, termination within a step budget, result-or-diagnostic',
         'bounds: scanners n<=2 (quick) / 3 (thorough) fully symbolic bytes; front ends n<=3/4 over the alphabet; seeds <= 70 bytes with one symbolic byte. Outside: longer inputs, #include file access, allocation failure.'),
 'C02': ('differential: real parser+VM+operators executed symbolically vs. a reference semantics written from the property (lib/sqfref.py) over a grammar of 17 control constructs nested to depth 2 (quick) / 3 (thorough); loop bounds / case selectors range over small integer sets decided by the solver, booleans fully symbolic; every feasible path compares the sequence of executed (traced) statements and construct values',
         'bounds: nesting depth 2/3, loop trip counts <= 4, arrays <= 3 elements. The reference interpreter is part of the trusted base; a mismatch is reported only after the native replay disagrees with the reference too.'),
 'C03': ('differential (real VM vs reference semantics) over programs that declare/shadow/assign/read one local name through two nested scopes of 12 scope-creating constructs x 8 scope operations x letter case, per-iteration clearing, globals in three namespaces (with-do, getVariable/setVariable) and spawn',
         'bounds: two nesting levels (quick uses a 9x4 subset of construct pairs), one variable name in two letter cases. Known finding: scopes opened inside with-do use missionNamespace.'),
 'C04': ('differential over histories on ONE VM instance: an erroring operation injected at 22 position classes (straight-line, every loop/iteration construct incl. conditions and iteration results, last statement, spawned code, try/catch bodies) x 6 handler arrangements, followed by a clean run; checks executed statements, handler invocation, result codes, stack trace presence and that the next run is neither failed nor blamed',
         'bounds: 2 (quick) / 4 (thorough) kinds of erroring operation; histories of 2 and 4 runs; after a failed run the harness aborts the VM as CLI/API do.'),
 'C05': ('(1) differential on stack-hostile programs (early exit, breakOut, throw, caught runtime errors inside half-built arrays and pending operands, blocks yielding no value); (2) monitor: programs are single-stepped through execute(assembly_step) and after every instruction the frame bases are monotone, operands below a live frame base are unchanged, loop program points do not see a growing stack',
         'bounds: programs of the C02/C04 grammars at depth 1 (quick) / 2 (thorough) plus 30 hostile programs; <= 6000 steps per path. Context switches between scheduled scripts are covered only through spawn in the C04 programs.'),
}
NA = {}
checks = []
for i in ids:
    if i in CLAIMS and os.path.exists(os.path.join(V, 'props', i + '.py')):
        t, n = CLAIMS[i]
        checks.append(dict(property_id=i, quick_cmd='./check %s --tier quick' % i, thorough_cmd='./check %s --tier thorough' % i, evidence_file='evidence/%s.json' % i,
                           replay_cmd_template='./check %s --replay {path}' % i, engine='E2 llsym',
                           level_claimed=dict(category='model_checking', text=t, design_ref='DESIGN.md section 3 ' + i), level_note=TRUST + n, technique=TECH))
na = [dict(property_id=i, reason=NA.get(i, 'check not built yet (build round in progress)')) for i in ids if i not in [c['property_id'] for c in checks]]
m = dict(version=1, setup_cmd="python3-vt -c 'import z3' && clang++-14 --version >/dev/null && llvm-link-14 --version >/dev/null",
         hooks=dict(guard='SQFVM_RUNTIME_VERIF', enable='no source hooks are needed: checks compile /repo/src to LLVM IR themselves (clang++-14 -DSQFVM_BUILD) together with extern "C" wrappers from /verif/harness',
                    baseline_off_cmd='cmake -G Ninja -S /repo -B /repo/_build -DCMAKE_BUILD_TYPE=RelWithDebInfo && cmake --build /repo/_build && ctest --test-dir /repo/_build -j8 --timeout 900', source_commits=[], add_only=True),
         engines=[dict(name='E2 llsym', path='engine/', serves_properties=[c['property_id'] for c in checks], kind_free_text='own LLVM-IR -> Python translator (ll2py) + forking symbolic executor (symrt) with z3; IR regenerated from /repo with clang++-14 on every run; native ASan/UBSan replay of counterexamples')],
         checks=checks, notes='fix: commits in /repo and known findings are listed in known-findings.txt', not_applicable=na)
json.dump(m, open(os.path.join(V, 'MANIFEST.json'), 'w'), indent=1)
print(len(checks), 'checks;', len(na), 'not applicable')
