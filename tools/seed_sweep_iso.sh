#!/bin/bash
# seed_sweep_iso.sh IDs...: like seed_sweep.sh but leaves /repo alone: each seeded change is applied to a scratch git worktree of /repo's HEAD and the
# check runs against it (VERIF_REPO) with its own work and evidence directories, so it can run next to other checks. The scratch copy is removed afterwards.
cd /verif
S=${SWEEP_SUFFIX:-}; WT=/tmp/wt/sweep_iso$S; WK=/tmp/wk_sweep_iso$S; EV=/tmp/ev_sweep_iso$S
for id in "$@"; do
  p=seeded/$id/patch.rebased.diff; [ -f $p ] || p=seeded/$id/patch.diff
  git -C /repo worktree remove --force $WT >/dev/null 2>&1
  git -C /repo worktree add --detach $WT HEAD >/dev/null 2>&1 || { echo "$id: cannot create scratch worktree"; continue; }
  if ! git -C $WT apply $PWD/$p; then echo "$id: patch does not apply"; git -C /repo worktree remove --force $WT; continue; fi
  prop=${id:0:3}; t0=$(date +%s)
  VERIF_REPO=$WT VERIF_WORK=$WK VERIF_EVIDENCE_DIR=$EV timeout 5400 ./check $prop --tier quick > /tmp/seed_$id.log 2>&1; rc=$?
  t1=$(date +%s)
  git -C /repo worktree remove --force $WT
  grep -E "^VIOLATION|^  obligation=|^KNOWN-FINDING|^$prop quick" /tmp/seed_$id.log | cut -c1-400 > seeded/$id/check.log
  echo "exit=$rc wall=$((t1-t0))s patch=$(basename $p) repo=$(git -C /repo rev-parse --short HEAD) (scratch copy)" >> seeded/$id/check.log
  python3 - "$id" "$rc" <<'PY'
import json, re, sys
i, rc = sys.argv[1], int(sys.argv[2])
log = open('/verif/seeded/%s/check.log' % i).read()
keys = sorted(set(re.findall(r'obligation=(\S+) key=(\S+?):? ', log)))
m = json.load(open('/verif/seeded/%s/meta.json' % i))
m['caught'] = rc == 1 and bool(keys)
m['caught_by'] = sorted({o for o, k in keys}); m['violation_keys'] = [k for o, k in keys][:12]
m.setdefault('origin', 'independent sub-agent given only the property text')
json.dump(m, open('/verif/seeded/%s/meta.json' % i, 'w'), indent=1)
print(i, 'caught' if m['caught'] else 'MISSED (exit %d)' % rc, m['caught_by'])
PY
done
rm -rf $EV
