// wrappers around the real SQF tokenizer (src/parser/sqf/tokenizer.hpp)
#include "parser/sqf/tokenizer.hpp"
#include <new>
using tok = sqf::parser::sqf::tokenizer;
extern "C" {
size_t w_sqftok_sizeof() { return sizeof(tok); }
void w_sqftok_init(void* mem, char* b, size_t n) { new (mem) tok(tok::iterator(b), tok::iterator(b + n), std::string("f")); }
int w_sqftok_next(tok* t, size_t* out /* len, line, col, off, contents_ptr */)
{
    auto r = t->next();
    out[0] = r.contents.length(); out[1] = r.line; out[2] = r.column; out[3] = r.offset; out[4] = (size_t)r.contents.data();
    return (int)r.type;
}
}
