// verif wrapper around rvutils::pbo::pbofile (src/rvutils/pbofile.hpp)
#include <algorithm>
#include <string>
#include <cstdint>
#include "rvutils/pbofile.hpp"
#include <cstring>
using namespace rvutils::pbo;
static size_t cp(const std::string& s, char* buf, size_t cap) { size_t n = s.length() < cap ? s.length() : cap; for (size_t i = 0; i < n; i++) buf[i] = s[i]; return s.length(); }
extern "C" {
void* w_pbo_open(const char* path) { return new pbofile(std::filesystem::path(std::string(path))); }
void w_pbo_close(void* p) { delete (pbofile*)p; }
int w_pbo_good(void* p) { return ((pbofile*)p)->good() ? 1 : 0; }
size_t w_pbo_nattr(void* p) { return ((pbofile*)p)->attributes().size(); }
void w_pbo_attr(void* p, size_t i, char* k, char* v, size_t cap, size_t* lens) { auto a = ((pbofile*)p)->attributes(); lens[0] = cp(a[i].first, k, cap); lens[1] = cp(a[i].second, v, cap); }
size_t w_pbo_nfiles(void* p) { return ((pbofile*)p)->files().size(); }
size_t w_pbo_file(void* p, size_t i, char* name, size_t cap, size_t* size) { auto f = ((pbofile*)p)->files(); *size = f[i].size; return cp(f[i].name, name, cap); }
long w_pbo_read(void* p, const char* name, size_t nlen, char* out, size_t cap)
{
    pbofile::reader r;
    if (!((pbofile*)p)->read(std::string_view(name, nlen), r)) return -1;
    auto want = r.descriptor().size;
    if (want > cap) want = cap;
    return (long)r.read(out, want);
}
}
