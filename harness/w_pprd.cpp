// wrappers around the preprocessor's character reader (preprocessorfileinfo, src/parser/preprocessor/default.h)
#include "parser/preprocessor/default.h"
#include <new>
using PFI = sqf::parser::preprocessor::impl_default::preprocessorfileinfo;
extern "C" {
size_t w_pprd_sizeof() { return sizeof(PFI); }
void w_pprd_init(void* mem, const char* b, size_t n) { auto p = new (mem) PFI(sqf::runtime::fileio::pathinfo{}); p->content = std::string(b, n); }
char w_pprd_next(PFI* p) { return p->next(); }
char w_pprd_peek(PFI* p, size_t len) { return p->peek(len); }
size_t w_pprd_off(PFI* p) { return p->off; }
size_t w_pprd_line(PFI* p) { return p->line; }
size_t w_pprd_col(PFI* p) { return p->col; }
void w_pprd_move_back(PFI* p) { p->move_back(); }
}
