// native replay driver for VM-level counterexamples (built with ASan+UBSan from /repo's working tree):
//   replay_vm compile|config|preprocess <hex text>
//   replay_vm run <ops mask> <preprocess 0/1> <hex text> [f<i>=<float bits hex> | b<i>=0/1 ...]
// prints every log line as "LOG <level> <code> <text>" and every trace__ value as "TRACE <str>", then "RESULT <n>"
#include <cstdio>
#include <cstdlib>
#include <cstring>
#include <unistd.h>
#include <ctime>
#include <string>
#include <map>
#include "runtime/value.h"
extern const char g_GIT_SHA1[] = "verif-replay";
extern "C" {
void* w_vm_new(int ops, long max_runtime_ms, int enable_classname_check);
void w_vm_delete(void* p);
void* w_vm_compile(void* p, const char* code, size_t n);
int w_vm_parse_config(void* p, const char* text, size_t n);
long w_vm_preprocess(void* p, const char* text, size_t n, char* buf, size_t cap);
int w_vm_run_sqf(void* p, const char* code, size_t n, int preprocess);
size_t w_val_tostring(const sqf::runtime::value* v, char* buf, size_t cap);
void w_vm_set_cfg(void* p, int what, long val);
int w_vm_execute(void* p, int action);
long w_vm_prettify(void* p, const char* text, size_t n, char* out, size_t cap);
int w_vm_state(void* p);
void w_vm_add_mapping(void* p, const char* phys, const char* virt);
static std::map<int, float> g_f; static std::map<int, int> g_b;
void verif_log(void*, int level, size_t code, const char* msg, size_t len) { printf("LOG %d %zu %.*s\n", level, code, (int)len, msg); }
float verif_hole_f(int id) { return g_f[id]; }
int verif_hole_b(int id) { return g_b[id]; }
void verif_trace(void*, const sqf::runtime::value* v) { static char buf[65536]; size_t n = w_val_tostring(v, buf, sizeof(buf)); printf("TRACE %.*s\n", (int)(n < sizeof(buf) ? n : sizeof(buf)), buf); }
int verif_event(int, long, long) { return 0; }
}
static std::string unhex(const char* h) { std::string s; size_t n = strlen(h) / 2; for (size_t i = 0; i < n; i++) { char t[3] = { h[2 * i], h[2 * i + 1], 0 }; s.push_back((char)strtoul(t, nullptr, 16)); } return s; }
int main(int argc, char** argv)
{
    if (argc < 3) return 2;
    setvbuf(stdout, nullptr, _IOLBF, 0);
    std::string op = argv[1];
    if (op == "runs")
    {   // runs <ops> then groups separated by "--": <hex text> [holes...]; all on ONE vm; abort after a failed run (as CLI/API do)
        int ops = atoi(argv[2]);
        void* vm = w_vm_new(ops, 0, 1);
        int i = 3, run = 0;
        while (i < argc)
        {
            std::string text = unhex(argv[i++]);
            g_f.clear(); g_b.clear();
            while (i < argc && strcmp(argv[i], "--"))
            {
                if (argv[i][0] == 'f') { int id = atoi(argv[i] + 1); unsigned bits = (unsigned)strtoul(strchr(argv[i], '=') + 1, nullptr, 16); float f; memcpy(&f, &bits, 4); g_f[id] = f; }
                else if (argv[i][0] == 'b') { int id = atoi(argv[i] + 1); g_b[id] = atoi(strchr(argv[i], '=') + 1); }
                i++;
            }
            i++;
            printf("RUN %d\n", run);
            char* buf = (char*)malloc(text.size() ? text.size() : 1); memcpy(buf, text.data(), text.size());
            int r = w_vm_run_sqf(vm, buf, text.size(), 0);
            printf("RESULT %d STATE %d\n", r, w_vm_state(vm));
            if (r == 2) w_vm_execute(vm, 3);
            run++;
        }
        return 0;
    }
    if (op == "opcall")
    {   // opcall <dir> <hex config> <hex prelude> <hex call> [holes]: complete registry, <dir> mapped as / and current directory, prelude, then the call
        if (chdir(argv[2])) return 2;
        void* vm = w_vm_new(16383, 0, 0);
        std::string cfg = unhex(argv[3]), pre = unhex(argv[4]), call = unhex(argv[5]);
        w_vm_add_mapping(vm, argv[2], "/");
        char* b = (char*)malloc(cfg.size() + 1); memcpy(b, cfg.data(), cfg.size()); printf("CONFIG %d\n", w_vm_parse_config(vm, b, cfg.size()));
        b = (char*)malloc(pre.size() + 1); memcpy(b, pre.data(), pre.size()); printf("PRELUDE %d\n", w_vm_run_sqf(vm, b, pre.size(), 0));
        for (int i = 6; i < argc; i++)
        {
            if (argv[i][0] == 'f') { int id = atoi(argv[i] + 1); unsigned bits = (unsigned)strtoul(strchr(argv[i], '=') + 1, nullptr, 16); float f; memcpy(&f, &bits, 4); g_f[id] = f; }
            else if (argv[i][0] == 'b') { int id = atoi(argv[i] + 1); g_b[id] = atoi(strchr(argv[i], '=') + 1); }
        }
        b = (char*)malloc(call.size() + 1); memcpy(b, call.data(), call.size());
        printf("RESULT %d\n", w_vm_run_sqf(vm, b, call.size(), 0));
        return 0;
    }
    if (op == "cfgq")
    {   // cfgq <n> <hex config>*n <hex sqf>...: load n config texts into one VM, then run every sqf text on it
        int n = atoi(argv[2]);
        void* vm = w_vm_new(1023, 0, 1);
        for (int i = 0; i < n; i++) { std::string t = unhex(argv[3 + i]); char* b = (char*)malloc(t.size() + 1); memcpy(b, t.data(), t.size()); printf("CONFIG %d\n", w_vm_parse_config(vm, b, t.size())); }
        for (int i = 3 + n; i < argc; i++) { std::string t = unhex(argv[i]); char* b = (char*)malloc(t.size() + 1); memcpy(b, t.data(), t.size()); printf("RUN %d\n", i - 3 - n); printf("RESULT %d\n", w_vm_run_sqf(vm, b, t.size(), 0)); }
        return 0;
    }
    if (op == "timed")
    {   // timed <max_runtime_ms> <gap_ms> <hex>: create VM with the limit, sleep gap, then run the text twice (real clock)
        long M = atol(argv[2]); long gap = atol(argv[3]); std::string text = unhex(argv[4]);
        void* vm = w_vm_new(1023, M, 1);
        for (int run = 0; run < 2; run++)
        {
            struct timespec ts = { gap / 1000, (gap % 1000) * 1000000L }; nanosleep(&ts, nullptr);
            printf("RUN %d\n", run);
            char* buf = (char*)malloc(text.size() ? text.size() : 1); memcpy(buf, text.data(), text.size());
            int r = w_vm_run_sqf(vm, buf, text.size(), 0);
            printf("RESULT %d STATE %d\n", r, w_vm_state(vm));
        }
        return 0;
    }
    if (op == "iso")
    {   // iso <q ops> <q pp> <q hex text | -> <q hex config | -> <destroy 0/1> <p pp> <p hex text> <p hex config | ->: Q in one instance, then P in a FRESH instance of the same process
        if (argc < 10) return 2;
        if (strcmp(argv[4], "-") || strcmp(argv[5], "-"))
        {
            void* vq = w_vm_new(atoi(argv[2]), 0, 1);
            if (strcmp(argv[5], "-")) { std::string c = unhex(argv[5]); char* b = (char*)malloc(c.size() + 1); memcpy(b, c.data(), c.size()); w_vm_parse_config(vq, b, c.size()); }
            if (strcmp(argv[4], "-")) { std::string t = unhex(argv[4]); char* b = (char*)malloc(t.size() + 1); memcpy(b, t.data(), t.size()); w_vm_run_sqf(vq, b, t.size(), atoi(argv[3])); }
            if (atoi(argv[6])) w_vm_delete(vq);
        }
        printf("P-BEGIN\n");
        void* vm = w_vm_new(1023, 0, 1);
        if (strcmp(argv[9], "-")) { std::string c = unhex(argv[9]); char* b = (char*)malloc(c.size() + 1); memcpy(b, c.data(), c.size()); w_vm_parse_config(vm, b, c.size()); }
        std::string t = unhex(argv[8]); char* b = (char*)malloc(t.size() + 1); memcpy(b, t.data(), t.size());
        printf("RESULT %d\n", w_vm_run_sqf(vm, b, t.size(), atoi(argv[7])));
        return 0;
    }
    if (op == "run")
    {
        int ops = atoi(argv[2]); int pp = atoi(argv[3]); std::string text = unhex(argv[4]);
        long maxloop = -1;
        for (int i = 5; i < argc; i++)
        {
            if (argv[i][0] == 'f') { int id = atoi(argv[i] + 1); unsigned bits = (unsigned)strtoul(strchr(argv[i], '=') + 1, nullptr, 16); float f; memcpy(&f, &bits, 4); g_f[id] = f; }
            else if (argv[i][0] == 'b') { int id = atoi(argv[i] + 1); g_b[id] = atoi(strchr(argv[i], '=') + 1); }
            else if (argv[i][0] == 'L') { maxloop = atol(strchr(argv[i], '=') + 1); }
        }
        void* vm = w_vm_new(ops, 0, 1);
        if (maxloop >= 0) w_vm_set_cfg(vm, 0, maxloop);
        char* buf = (char*)malloc(text.size() ? text.size() : 1); memcpy(buf, text.data(), text.size());
        int r = w_vm_run_sqf(vm, buf, text.size(), pp);
        printf("RESULT %d\n", r);
        return 0;
    }
    std::string text = unhex(argv[2]);
    char* buf = (char*)malloc(text.size() ? text.size() : 1); memcpy(buf, text.data(), text.size());
    void* vm = w_vm_new(1023, 0, 1);
    if (op == "compile") printf("RESULT %d\n", w_vm_compile(vm, buf, text.size()) ? 1 : 0);
    else if (op == "config") printf("RESULT %d\n", w_vm_parse_config(vm, buf, text.size()));
    else if (op == "pretty") { static char out[65536]; long n = w_vm_prettify(vm, buf, text.size(), out, sizeof(out)); printf("RESULT %ld\n", n); printf("OUTHEX "); for (long i = 0; i < n && i < (long)sizeof(out); i++) printf("%02x", (unsigned char)out[i]); printf("\n"); }
    else if (op == "preprocess") { static char out[65536]; long n = w_vm_preprocess(vm, buf, text.size(), out, sizeof(out)); printf("RESULT %ld\n", n); if (n >= 0) printf("OUT %.*s\n", (int)n, out); }
    return 0;
}
