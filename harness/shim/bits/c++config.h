// verif shim: make libstdc++'s explicitly-instantiated templates (basic_string, streams) visible as IR
#include_next <bits/c++config.h>
#undef _GLIBCXX_EXTERN_TEMPLATE
#define _GLIBCXX_EXTERN_TEMPLATE 0
