// wrappers around the real config tokenizer (src/parser/config/tokenizer.hpp)
#include "parser/config/tokenizer.hpp"
#include <new>
using ctok = sqf::parser::config::tokenizer;
extern "C" {
size_t w_cfgtok_sizeof() { return sizeof(ctok); }
void w_cfgtok_init(void* mem, char* b, size_t n) { new (mem) ctok(ctok::iterator(b), ctok::iterator(b + n), std::string("f")); }
int w_cfgtok_next(ctok* t, size_t* out /* len, line, col, off, contents_ptr */)
{
    auto r = t->next();
    out[0] = r.contents.length(); out[1] = r.line; out[2] = r.column; out[3] = r.offset; out[4] = (size_t)r.contents.data();
    return (int)r.type;
}
}
