// native tool: dumps the complete operator registry produced by the real registration functions (sqf::operators::ops)
#include "runtime/logging.h"
#include "runtime/runtime.h"
#include "operators/ops.h"
#include <cstdio>
#include <cstring>
#include <cstdlib>
#include "parser/sqf/sqf_parser.hpp"
extern const char g_GIT_SHA1[] = "verif-opsdump";
int main(int argc, char** argv)
{
    StdOutLogger logger;
    sqf::runtime::runtime::runtime_conf conf;
    sqf::runtime::runtime rt(logger, conf);
    if (argc > 1 && !strcmp(argv[1], "real"))
    {   // only the implemented operators (everything ops() registers except the three ops_dummy_* tables)
        sqf::operators::ops_config(rt); sqf::operators::ops_diag(rt); sqf::operators::ops_generic(rt); sqf::operators::ops_group(rt); sqf::operators::ops_logic(rt);
        sqf::operators::ops_markers(rt); sqf::operators::ops_math(rt); sqf::operators::ops_namespace(rt); sqf::operators::ops_object(rt); sqf::operators::ops_sqfvm(rt);
        sqf::operators::ops_string(rt); sqf::operators::ops_text(rt); sqf::operators::ops_osspecific(rt); sqf::operators::ops_hashmap(rt);
    }
    else sqf::operators::ops(rt);
    if (argc > 2 && !strcmp(argv[1], "listing"))
    {   // opsdump listing <hex text>: instruction listing produced by the real parser with the complete real registry
        std::string h = argv[2], text;
        for (size_t i = 0; i + 1 < h.size(); i += 2) text.push_back((char)strtoul(h.substr(i, 2).c_str(), nullptr, 16));
        rt.parser_sqf(std::make_unique<sqf::parser::sqf::parser>(logger));
        auto set = rt.parser_sqf().parse(rt, text, { std::string_view("replay"), std::string_view() });
        if (!set.has_value()) { printf("NOPARSE\n"); return 0; }
        for (auto it = set->begin(); it != set->end(); ++it) printf("I %s\n", (*it)->to_string().c_str());
        return 0;
    }
    for (auto it = rt.sqfop_binary_begin(); it != rt.sqfop_binary_end(); ++it)
        printf("B\t%s\t%d\t%s\t%s\n", std::string(it->second.name()).c_str(), (int)it->second.precedence(), std::string(it->second.left_type().to_string()).c_str(), std::string(it->second.right_type().to_string()).c_str());
    for (auto it = rt.sqfop_unary_begin(); it != rt.sqfop_unary_end(); ++it)
        printf("U\t%s\t0\t-\t%s\n", std::string(it->second.name()).c_str(), std::string(it->second.right_type().to_string()).c_str());
    for (auto it = rt.sqfop_nular_begin(); it != rt.sqfop_nular_end(); ++it)
        printf("N\t%s\t0\t-\t-\n", std::string(it->second.name()).c_str());
    return 0;
}
