// native replay driver for tokenizer / reader counterexamples: replay_tok <sqf|cfg|pprd> <hex bytes>
#include <cstdio>
#include <cstdlib>
#include <cstring>
#include <string>
extern "C" {
size_t w_sqftok_sizeof(); void w_sqftok_init(void*, char*, size_t); int w_sqftok_next(void*, size_t*);
size_t w_cfgtok_sizeof(); void w_cfgtok_init(void*, char*, size_t); int w_cfgtok_next(void*, size_t*);
size_t w_pprd_sizeof(); void w_pprd_init(void*, const char*, size_t); char w_pprd_next(void*); size_t w_pprd_off(void*);
}
int main(int argc, char** argv)
{
    if (argc < 3) return 2;
    std::string hex = argv[2]; size_t n = hex.size() / 2;
    char* buf = (char*)malloc(n ? n : 1);   // exactly sized: ASan sees any read past the input
    for (size_t i = 0; i < n; i++) buf[i] = (char)strtoul(hex.substr(2 * i, 2).c_str(), nullptr, 16);
    size_t out[5];
    if (!strcmp(argv[1], "sqf") || !strcmp(argv[1], "cfg"))
    {
        bool sq = !strcmp(argv[1], "sqf");
        void* t = malloc(sq ? w_sqftok_sizeof() : w_cfgtok_sizeof());
        if (sq) w_sqftok_init(t, buf, n); else w_cfgtok_init(t, buf, n);
        size_t consumed = 0;
        for (size_t k = 0; k <= n + 1; k++)
        {
            int ty = sq ? w_sqftok_next(t, out) : w_cfgtok_next(t, out);
            printf("tok %d len %zu line %zu col %zu off %zu\n", ty, out[0], out[1], out[2], out[3]);
            if (out[3] != consumed) { printf("MISMATCH offset\n"); return 3; }
            if (out[0] > n - consumed) { printf("MISMATCH token leaves input\n"); return 3; }
            if (ty == 0) { if (consumed != n) { printf("MISMATCH eof before end\n"); return 3; } break; }
            if (ty == 1) break;
            if (out[0] == 0) { printf("MISMATCH no progress\n"); return 3; }
            consumed += out[0];
        }
    }
    else
    {
        void* p = malloc(w_pprd_sizeof());
        w_pprd_init(p, buf, n);
        for (size_t k = 0; k <= n + 1; k++) { int c = (unsigned char)w_pprd_next(p); printf("%02x off %zu\n", c, w_pprd_off(p)); if (w_pprd_off(p) > n) return 3; }
    }
    return 0;
}
