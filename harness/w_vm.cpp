// verif wrapper: builds a real sqf::runtime::runtime with the real parsers and operator sets and exposes
// run / step / inspect entry points with C linkage. No behaviour of the VM is replaced here; the only additions are
// harness operators (holes, trace) that are registered through the VM's own register_sqfop().
#include "runtime/logging.h"
#include "runtime/runtime.h"
#include "runtime/d_scalar.h"
#include "runtime/d_boolean.h"
#include "runtime/d_string.h"
#include "runtime/d_array.h"
#include "runtime/d_code.h"
#include "parser/config/config_parser.hpp"
#include "parser/sqf/sqf_parser.hpp"
#include "parser/preprocessor/default.h"
#include "operators/ops.h"
#include "fileio/default.h"
#include "parser/sqf/sqf_formatter.h"
#include <sstream>
#include <new>

using namespace sqf::runtime;
using namespace sqf::types;

extern "C" {
// implemented by the Python side (externals)
void verif_log(void* vm, int level, size_t code, const char* msg, size_t len);
float verif_hole_f(int id);
int verif_hole_b(int id);
void verif_trace(void* vm, const value* v);
int verif_event(int kind, long a, long b);
}

static size_t copy_out_(const std::string& s, char* buf, size_t cap) { size_t n = s.length() < cap ? s.length() : cap; for (size_t i = 0; i < n; i++) buf[i] = s[i]; if (n < cap) buf[n] = 0; return s.length(); }
namespace {
class vlogger : public Logger
{
public:
    void* owner = nullptr;
    vlogger() : Logger() {}
    void log(const LogMessageBase& message) override
    {
        auto str = message.formatMessage();
        verif_log(owner, static_cast<int>(message.getLevel()), message.getErrorCode(), str.data(), str.length());
    }
};
struct vm_t
{
    vlogger* logger;
    runtime* rt;
};
template<int I> value hole_f(runtime&) { return value(verif_hole_f(I)); }
template<int I> value hole_b(runtime&) { return value(verif_hole_b(I) != 0); }
value trace_any(runtime& rt, value::cref right) { verif_trace(&rt, &right); return right; }
value event_scalar(runtime& rt, value::cref right) { return value((float)verif_event(0, (long)right.data<d_scalar, float>(), 0)); }
}

extern "C" {
enum { OPS_GENERIC = 1, OPS_LOGIC = 2, OPS_MATH = 4, OPS_STRING = 8, OPS_HASHMAP = 16, OPS_NAMESPACE = 32, OPS_SQFVM = 64, OPS_CONFIG = 128,
       OPS_DIAG = 256, OPS_TEXT = 512, OPS_OBJECT = 1024, OPS_GROUP = 2048, OPS_MARKERS = 4096, OPS_OSSPECIFIC = 8192, OPS_DUMMY = 16384 };

void* w_vm_new(int ops, long max_runtime_ms, int enable_classname_check)
{
    auto v = new vm_t();
    v->logger = new vlogger();
    runtime::runtime_conf conf;
    conf.max_runtime = std::chrono::milliseconds(max_runtime_ms);
    conf.disable_sleep = false;
    conf.enable_classname_check = enable_classname_check != 0;
    conf.disable_networking = true;
    conf.print_context_work_to_log_on_exit = false;
    v->rt = new runtime(*v->logger, conf);
    v->logger->owner = v->rt;
    v->rt->fileio(std::make_unique<sqf::fileio::impl_default>(*v->logger));
    v->rt->parser_config(std::make_unique<sqf::parser::config::parser>(*v->logger));
    v->rt->parser_preprocessor(std::make_unique<sqf::parser::preprocessor::impl_default>(*v->logger));
    v->rt->parser_sqf(std::make_unique<sqf::parser::sqf::parser>(*v->logger));
    if (ops & OPS_CONFIG) sqf::operators::ops_config(*v->rt);
    if (ops & OPS_DIAG) sqf::operators::ops_diag(*v->rt);
    if (ops & OPS_GENERIC) sqf::operators::ops_generic(*v->rt);
    if (ops & OPS_LOGIC) sqf::operators::ops_logic(*v->rt);
    if (ops & OPS_MATH) sqf::operators::ops_math(*v->rt);
    if (ops & OPS_NAMESPACE) sqf::operators::ops_namespace(*v->rt);
    if (ops & OPS_SQFVM) sqf::operators::ops_sqfvm(*v->rt);
    if (ops & OPS_STRING) sqf::operators::ops_string(*v->rt);
    if (ops & OPS_TEXT) sqf::operators::ops_text(*v->rt);
    if (ops & OPS_HASHMAP) sqf::operators::ops_hashmap(*v->rt);
#ifdef W_VM_ARMA_OPS
    if (ops & OPS_OBJECT) sqf::operators::ops_object(*v->rt);
    if (ops & OPS_GROUP) sqf::operators::ops_group(*v->rt);
    if (ops & OPS_MARKERS) sqf::operators::ops_markers(*v->rt);
    if (ops & OPS_OSSPECIFIC) sqf::operators::ops_osspecific(*v->rt);
#endif
#ifdef W_VM_DUMMY_OPS
    // registered last, as sqf::operators::ops() does
    if (ops & OPS_DUMMY) { sqf::operators::ops_dummy_nular(*v->rt); sqf::operators::ops_dummy_unary(*v->rt); sqf::operators::ops_dummy_binary(*v->rt); }
#endif
    // harness operators
    using namespace sqf::runtime::sqfop;
    v->rt->register_sqfop(nular("hf0__", "", hole_f<0>)); v->rt->register_sqfop(nular("hf1__", "", hole_f<1>));
    v->rt->register_sqfop(nular("hf2__", "", hole_f<2>)); v->rt->register_sqfop(nular("hf3__", "", hole_f<3>));
    v->rt->register_sqfop(nular("hf4__", "", hole_f<4>)); v->rt->register_sqfop(nular("hf5__", "", hole_f<5>));
    v->rt->register_sqfop(nular("hb0__", "", hole_b<0>)); v->rt->register_sqfop(nular("hb1__", "", hole_b<1>));
    v->rt->register_sqfop(nular("hb2__", "", hole_b<2>)); v->rt->register_sqfop(nular("hb3__", "", hole_b<3>));
    // deeper nestings of the program grammars need more holes
    v->rt->register_sqfop(nular("hf6__", "", hole_f<6>)); v->rt->register_sqfop(nular("hf7__", "", hole_f<7>)); v->rt->register_sqfop(nular("hf8__", "", hole_f<8>));
    v->rt->register_sqfop(nular("hf9__", "", hole_f<9>)); v->rt->register_sqfop(nular("hf10__", "", hole_f<10>)); v->rt->register_sqfop(nular("hf11__", "", hole_f<11>));
    v->rt->register_sqfop(nular("hb4__", "", hole_b<4>)); v->rt->register_sqfop(nular("hb5__", "", hole_b<5>)); v->rt->register_sqfop(nular("hb6__", "", hole_b<6>)); v->rt->register_sqfop(nular("hb7__", "", hole_b<7>));
    v->rt->register_sqfop(unary("trace__", t_any(), "", trace_any));
    v->rt->register_sqfop(unary("event__", t_scalar(), "", event_scalar));
    return v;
}
void w_vm_delete(void* p)
{
    auto v = (vm_t*)p;
    delete v->rt; delete v->logger; delete v;
}
void* w_vm_runtime(void* p) { return ((vm_t*)p)->rt; }

// parse SQF text (no preprocessing) and run it to completion through runtime::execute(start).
// returns: -3 parse failure, otherwise the runtime::result of execute as int (>= 0)
int w_vm_run_sqf(void* p, const char* code, size_t n, int preprocess)
{
    auto v = (vm_t*)p;
    std::string text(code, n);
    if (preprocess)
    {
        auto pp = v->rt->parser_preprocessor().preprocess(*v->rt, std::string_view(code, n), { std::string_view("harness"), std::string_view() });
        if (!pp.has_value()) return -2;
        text = *pp;
    }
    auto set = v->rt->parser_sqf().parse(*v->rt, text, { std::string_view("harness"), std::string_view() });
    if (!set.has_value()) return -3;
    auto wptr = v->rt->context_create();
    auto context = wptr.lock();
    context->push_frame({ v->rt->default_value_scope(), set.value() });
    auto result = v->rt->execute(runtime::action::start);
    return (int)result;
}
int w_vm_state(void* p) { return (int)((vm_t*)p)->rt->runtime_state(); }
int w_vm_execute(void* p, int action) { return (int)((vm_t*)p)->rt->execute((runtime::action)action); }
size_t w_vm_context_count(void* p) { auto rt = ((vm_t*)p)->rt; return (size_t)(rt->context_end() - rt->context_begin()); }

// ---- value inspection
// kinds: 0 nil, 1 scalar, 2 boolean, 3 string, 4 array, 5 code, 6 other
int w_val_kind(const value* v)
{
    if (v->empty()) return 0;
    if (v->is<t_scalar>()) return 1;
    if (v->is<t_boolean>()) return 2;
    if (v->is<t_string>()) return 3;
    if (v->is<t_array>()) return 4;
    if (v->is<t_code>()) return 5;
    return 6;
}
float w_val_scalar(const value* v) { return v->data<d_scalar>()->value(); }
int w_val_bool(const value* v) { return v->data<d_boolean>()->value() ? 1 : 0; }
size_t w_val_strlen(const value* v) { return v->data<d_string>()->value().length(); }
size_t w_val_strcopy(const value* v, char* buf, size_t cap) { auto s = v->data<d_string>()->value(); size_t n = s.length() < cap ? s.length() : cap; for (size_t i = 0; i < n; i++) buf[i] = s[i]; return s.length(); }
size_t w_val_arrlen(const value* v) { return v->data<d_array>()->size(); }
const value* w_val_arrat(const value* v, size_t i) { return &v->data<d_array>()->at(i); }
const void* w_val_dataptr(const value* v) { return v->data().get(); }
size_t w_val_tostring(const value* v, char* buf, size_t cap) { auto s = v->to_string_sqf(); size_t n = s.length() < cap ? s.length() : cap; for (size_t i = 0; i < n; i++) buf[i] = s[i]; return s.length(); }

// ---- compile only: instruction listing of parsed text
void* w_vm_compile(void* p, const char* code, size_t n)
{
    auto v = (vm_t*)p;
    auto set = v->rt->parser_sqf().parse(*v->rt, std::string(code, n), { std::string_view("harness"), std::string_view() });
    if (!set.has_value()) return nullptr;
    return new instruction_set(set.value());
}
size_t w_iset_size(void* h) { return ((instruction_set*)h)->size(); }
size_t w_iset_tostring(void* h, size_t i, char* buf, size_t cap) { auto s = (*(((instruction_set*)h)->begin() + i))->to_string(); size_t n = s.length() < cap ? s.length() : cap; for (size_t k = 0; k < n; k++) buf[k] = s[k]; return s.length(); }
void w_iset_free(void* h) { delete (instruction_set*)h; }
// parse and create a context holding the code, without executing (for stepping / scheduling harnesses). returns 0 ok, -3 parse failure
int w_vm_push_code(void* p, const char* code, size_t n, int can_suspend)
{
    auto v = (vm_t*)p;
    auto set = v->rt->parser_sqf().parse(*v->rt, std::string(code, n), { std::string_view("harness"), std::string_view() });
    if (!set.has_value()) return -3;
    auto context = v->rt->context_create().lock();
    context->can_suspend(can_suspend != 0);
    context->push_frame({ v->rt->default_value_scope(), set.value() });
    return 0;
}
// registers a stand-in operator (no-op callback) under the given name through the VM's own register_sqfop(): used to give the real
// lexer/parser the complete registry (names, arities, precedences) dumped from the real registration functions by harness/opsdump.cpp
static value dummy_n(runtime&) { return {}; }
static value dummy_u(runtime&, value::cref) { return {}; }
static value dummy_b(runtime&, value::cref, value::cref) { return {}; }
int w_vm_register_dummy(void* p, int kind, const char* name, int prec)
{
    auto rt = ((vm_t*)p)->rt;
    std::string n(name);
    using namespace sqf::runtime::sqfop;
    if (kind == 0) { if (rt->sqfop_exists_nular(n)) return 0; rt->register_sqfop(nular(n, "", dummy_n)); return 1; }
    if (kind == 1) { if (rt->sqfop_exists_unary(n)) return 0; rt->register_sqfop(unary(n, t_any(), "", dummy_u)); return 1; }
    if (rt->sqfop_exists_binary(n)) return 0;
    rt->register_sqfop(binary((short)prec, n, t_any(), t_any(), "", dummy_b)); return 1;
}
// ---- file io: mappings, path resolution, running a text that lives at a given path (so that #include resolves relative to it)
void w_vm_add_mapping(void* p, const char* phys, const char* virt) { ((vm_t*)p)->rt->fileio().add_mapping(phys, virt); }
int w_vm_get_info(void* p, const char* view, const char* cur_phys, const char* cur_virt, char* out_phys, char* out_virt, size_t cap)
{
    auto res = ((vm_t*)p)->rt->fileio().get_info(view, { std::string(cur_phys), std::string(cur_virt) });
    if (!res.has_value()) return 0;
    copy_out_(res->physical, out_phys, cap); copy_out_(res->virtual_, out_virt, cap);
    return 1;
}
long w_vm_read_file(void* p, const char* phys, const char* virt, char* out, size_t cap)
{
    auto s = ((vm_t*)p)->rt->fileio().read_file({ std::string(phys), std::string(virt) });
    return (long)copy_out_(s, out, cap);
}
int w_vm_run_sqf_at(void* p, const char* code, size_t n, const char* phys, const char* virt)
{
    auto v = (vm_t*)p;
    sqf::runtime::fileio::pathinfo pi{ std::string(phys), std::string(virt) };
    auto pp = v->rt->parser_preprocessor().preprocess(*v->rt, std::string_view(code, n), pi);
    if (!pp.has_value()) return -2;
    auto set = v->rt->parser_sqf().parse(*v->rt, *pp, pi);
    if (!set.has_value()) return -3;
    auto context = v->rt->context_create().lock();
    context->push_frame({ v->rt->default_value_scope(), set.value() });
    return (int)v->rt->execute(runtime::action::start);
}
void w_vm_add_pbo(void* p, const char* path)
{
    auto* io = dynamic_cast<sqf::fileio::impl_default*>(&((vm_t*)p)->rt->fileio());
    if (io) io->add_pbo_mapping(std::filesystem::path(std::string(path)));
}
// ---- value construction / equality / hashing kernels (value::operator==, data::equals, std::hash<value>)
const value* w_val_new_scalar(float f) { return new value(f); }
const value* w_val_new_bool(int b) { return new value(b != 0); }
const value* w_val_new_string(const char* p, size_t n) { return new value(std::string(p, n)); }
const value* w_val_new_nil() { return new value(); }
const value* w_val_new_array(size_t n, const value** elems) { std::vector<value> v; for (size_t i = 0; i < n; i++) v.push_back(*elems[i]); return new value(v); }
int w_val_equals(const value* a, const value* b) { return (*a == *b) ? 1 : 0; }
size_t w_val_hash(const value* a) { return std::hash<value>()(*a); }
// ---- string quoting kernels (d_string::to_string_sqf / from_sqf) and the CLI pretty printer (sqf_formatter)
static size_t copy_out(const std::string& s, char* buf, size_t cap) { size_t n = s.length() < cap ? s.length() : cap; for (size_t i = 0; i < n; i++) buf[i] = s[i]; return s.length(); }
size_t w_str_quote(const char* in, size_t n, char* out, size_t cap) { d_string d(std::string(in, n)); return copy_out(d.to_string_sqf(), out, cap); }
size_t w_str_unquote(const char* in, size_t n, char* out, size_t cap) { return copy_out(d_string::from_sqf(std::string_view(in, n)), out, cap); }
long w_vm_prettify(void* p, const char* text, size_t n, char* out, size_t cap)
{
    auto v = (vm_t*)p;
    std::ostringstream pretty;
    sqf::parser::sqf::formatter fmt(*v->rt, std::string(text, n), { std::string("harness"), std::string() });
    fmt.prettify(fmt.getRes(), 0, pretty);
    return (long)copy_out(pretty.str(), out, cap);
}
// config text -> confighost through the real config parser. returns 1 ok, 0 failed
int w_vm_parse_config(void* p, const char* text, size_t n)
{
    auto v = (vm_t*)p;
    return v->rt->parser_config().parse(v->rt->confighost(), std::string(text, n), { std::string_view("harness.cpp"), std::string_view() }) ? 1 : 0;
}
// real preprocessor on a text; returns output length (copied to buf up to cap) or -1 when preprocess() returned no value
long w_vm_preprocess(void* p, const char* text, size_t n, char* buf, size_t cap)
{
    auto v = (vm_t*)p;
    auto pp = v->rt->parser_preprocessor().preprocess(*v->rt, std::string_view(text, n), { std::string_view("harness.sqf"), std::string_view() });
    if (!pp.has_value()) return -1;
    size_t k = pp->length() < cap ? pp->length() : cap;
    for (size_t i = 0; i < k; i++) buf[i] = (*pp)[i];
    return (long)pp->length();
}
// configuration fields (these are documented configuration, not hooks)
void w_vm_set_cfg(void* p, int what, long val)
{
    auto& c = ((vm_t*)p)->rt->configuration();
    if (what == 0) c.max_loop_iterations_in_unscheduled = (size_t)val;
    else if (what == 1) c.max_runtime = std::chrono::milliseconds(val);
    else if (what == 2) c.disable_sleep = val != 0;
}
// ---- operand stack / frame observation (read-only accessors of the public API named in the property's observe_at)
int w_vm_mon_enable(void*) { return 0; }
size_t w_ctx_values_size(void* p, size_t ci) { auto rt = ((vm_t*)p)->rt; return (*(rt->context_begin() + ci))->values_size(); }
size_t w_ctx_frames_size(void* p, size_t ci) { auto rt = ((vm_t*)p)->rt; return (*(rt->context_begin() + ci))->frames_size(); }
size_t w_ctx_frame_vsp(void* p, size_t ci, size_t fi_from_top) { auto rt = ((vm_t*)p)->rt; return ((*(rt->context_begin() + ci))->frames_rbegin() + fi_from_top)->value_stack_pos(); }
const value* w_ctx_value_at(void* p, size_t ci, size_t k) { auto rt = ((vm_t*)p)->rt; return &*((*(rt->context_begin() + ci))->values_begin() + k); }
const void* w_ctx_ptr(void* p, size_t ci) { auto rt = ((vm_t*)p)->rt; return (rt->context_begin() + ci)->get(); }
int w_ctx_suspended(void* p, size_t ci) { auto rt = ((vm_t*)p)->rt; return (*(rt->context_begin() + ci))->suspended() ? 1 : 0; }
}
