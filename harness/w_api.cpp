// verif wrapper for the C API (src/export/sqfvm.cpp): provides a log callback with an address and forwards it to the harness
#include <cstdint>
#include <cstddef>
#include "export/sqfvm.h"
extern "C" {
void verif_api_log(void* user_data, void* call_data, int32_t severity, const char* msg, uint32_t len);   // Python side
void w_api_cb(void* user_data, void* call_data, int32_t severity, const char* message, uint32_t length) { verif_api_log(user_data, call_data, severity, message, length); }
void* w_api_create(void* user_data, float max_runtime_seconds, int kind)
{
    if (kind == 0) return sqfvm_create_instance_empty(user_data, w_api_cb, max_runtime_seconds);
    return sqfvm_create_instance_basic(user_data, w_api_cb, max_runtime_seconds);
}
int32_t w_api_call(void* inst, void* call_data, int type, const char* code, uint32_t len) { return sqfvm_call(inst, call_data, (char)type, code, len); }
int32_t w_api_load_config(void* inst, const char* text, uint32_t len) { return sqfvm_load_config(inst, text, len); }
int32_t w_api_status(void* inst) { return sqfvm_status(inst); }
void w_api_destroy(void* inst) { sqfvm_destroy_instance(inst); }
}
