"""loader: /repo sources -> LLVM IR -> (ll2py) Python module, and loading of that module on symrt.
Everything is regenerated from /repo's working tree; the only cache is keyed by the sha1 of the
*preprocessed* translation unit (so any change to a source or header produces a new key)."""
import os, sys, subprocess, hashlib, time, importlib.util, json, threading
from concurrent.futures import ThreadPoolExecutor
HERE = os.path.dirname(os.path.abspath(__file__))
VERIF = os.path.dirname(HERE)
REPO = os.environ.get('VERIF_REPO', '/repo')
WORK = os.environ.get('VERIF_WORK', os.path.join(VERIF, 'work'))
CACHE = os.path.join(WORK, 'cache')
CXXFLAGS = ['-std=c++17', '-O1', '-fno-vectorize', '-fno-slp-vectorize', '-fno-unroll-loops', '-DSQFVM_BUILD', '-DDISABLE_CLIPBOARD', '-Wno-builtin-macro-redefined', '-D__DATE__="Jan  1 2000"', '-D__TIME__="00:00:00"',
            '-I' + os.path.join(VERIF, 'harness', 'shim'), '-I' + os.path.join(REPO, 'src'), '-I' + os.path.join(REPO, 'include/tclap-1.2.2/include'), '-I' + os.path.join(VERIF, 'harness')]
STATS = dict(compiled=0, cached=0, compile_s=0.0)

def sh(cmd, **kw):
    r = subprocess.run(cmd, stdout=subprocess.PIPE, stderr=subprocess.PIPE, **kw)
    if r.returncode != 0:
        raise RuntimeError('command failed: %s\n%s' % (' '.join(cmd), r.stderr.decode()[-4000:]))
    return r.stdout

def compile_ll(src, extra=()):
    """compile one C++ source to textual IR; returns path of .ll"""
    os.makedirs(CACHE, exist_ok=True)
    flags = CXXFLAGS + list(extra)
    t = time.time()
    pre = sh(['clang++-14'] + flags + ['-E', '-P', src])
    key = hashlib.sha1(pre + ' '.join(flags).encode()).hexdigest()[:20]
    out = os.path.join(CACHE, os.path.basename(src) + '.' + key + '.ll')
    if os.path.exists(out):
        STATS['cached'] += 1
        return out
    tmp = out + '.tmp%d' % os.getpid()
    sh(['clang++-14'] + flags + ['-S', '-emit-llvm', src, '-o', tmp])
    os.replace(tmp, out)
    STATS['compiled'] += 1; STATS['compile_s'] += time.time() - t
    return out

def repo_sources(names):
    return [n if os.path.isabs(n) else os.path.join(REPO, 'src', n) for n in names]

SLOTS = {'vm': 0, 'tok': 1, 'api': 2, 'pbo': 3, 'fio': 4, 'misc': 5}
def build_unit(name, sources, roots, stub=(), extra_flags=(), check_ub=True, keep_ctors=True):
    """compile+link+internalize+dce, translate to Python. returns (py_path, info)"""
    os.makedirs(WORK, exist_ok=True)
    srcs = repo_sources(sources)
    t0 = time.time()
    with ThreadPoolExecutor(16) as ex:
        lls = list(ex.map(lambda s_: compile_ll(s_, extra_flags), srcs))
    t1 = time.time()
    udir = os.path.join(WORK, 'unit_' + name); os.makedirs(udir, exist_ok=True)
    link = os.path.join(udir, 'link.bc'); unit = os.path.join(udir, 'unit.ll')
    sh(['llvm-link-14'] + lls + ['-o', link])
    api = ','.join(list(roots))
    sh(['opt-14', '-S', '-internalize', '-internalize-public-api-list=' + api, '-globaldce', link, '-o', unit])
    t2 = time.time()
    key = hashlib.sha1(open(unit, 'rb').read() + repr((sorted(stub), check_ub, SLOTS.get(name, 6))).encode() + open(os.path.join(HERE, 'll2py.py'), 'rb').read() + open(os.path.join(HERE, 'll2c.py'), 'rb').read()).hexdigest()[:20]
    py = os.path.join(udir, 'unit_%s_%s.py' % (name, key))
    if not os.path.exists(py):
        sys.path.insert(0, HERE)
        import ll2py
        mod = ll2py.parse_module(open(unit).read())
        g = ll2py.Gen(mod, check_ub=check_ub, slot=SLOTS.get(name, 6))
        src = g.run(list(roots), set(stub))
        for f in os.listdir(udir):
            if f.startswith('unit_') and (f.endswith('.py') or f.endswith('.marshal')): os.unlink(os.path.join(udir, f))
        open(py, 'w').write(src)
    t3 = time.time()
    info = dict(unit=name, sources=[os.path.relpath(s_, REPO) if s_.startswith(REPO) else os.path.relpath(s_, VERIF) for s_ in srcs], roots=list(roots), stubbed=sorted(stub),
                compile_s=round(t1 - t0, 2), link_s=round(t2 - t1, 2), translate_s=round(t3 - t2, 2), unit_ll=unit, unit_ll_bytes=os.path.getsize(unit))
    return py, info

def load_unit(py, run_ctors=True):
    """import the generated module, create globals, run static constructors. returns module"""
    sys.path.insert(0, HERE)
    import symrt as rt, cxxlib
    import types, marshal, gc, ctypes
    m = types.ModuleType('unit_' + hashlib.sha1(py.encode()).hexdigest()[:8])
    m.__file__ = py
    pyc = py + '.marshal'
    code = None
    if os.path.exists(pyc) and os.path.getmtime(pyc) >= os.path.getmtime(py):
        try: code = marshal.load(open(pyc, 'rb'))
        except Exception: code = None
    if code is None:
        code = compile(open(py).read(), py, 'exec')
        try:
            with open(pyc + '.tmp%d' % os.getpid(), 'wb') as f: marshal.dump(code, f)
            os.replace(pyc + '.tmp%d' % os.getpid(), pyc)
        except Exception: pass
    sys.modules[m.__name__] = m
    exec(code, m.__dict__)
    del code
    gc.collect()
    try: ctypes.CDLL('libc.so.6').malloc_trim(0)     # the compiler's temporary memory goes back to the OS: forks get much cheaper
    except Exception: pass
    G = m.init_globals()
    if rt.MODULE_GLOBALS[0] is None: rt.MODULE_GLOBALS = [G]
    rt.MODULE = [m]; rt.MODULES.append(m)
    # type_info vtables (external globals): record their +16 addresses for inheritance walks
    for i, n in enumerate(('_ZTVN10__cxxabiv120__si_class_type_infoE', '_ZTVN10__cxxabiv117__class_type_infoE', '_ZTVN10__cxxabiv121__vmi_class_type_infoE')):
        if n in G: rt.TI_SI_VTABLE[i].add(G[n] + 16)
    for n, a in G.items():
        if n.startswith('_ZTI') and n[4:] in cxxlib.STD_EXC:
            rt.TI_CANON[a] = cxxlib.STD_TI.setdefault(n[4:], a)
    for n in list(cxxlib.STD_TI):
        rt.TI_BASES[cxxlib.STD_TI[n]] = [cxxlib.std_typeinfo(b, G) for b in cxxlib.STD_EXC.get(n, [])]
    if '__libc_single_threaded' in G: rt.st(G['__libc_single_threaded'], 1, 1)
    # python overrides for functions that are *defined* in the IR but must be modelled (OVERRIDE registry)
    for n, f in rt.OVERRIDE.items():
        if n in m.DEFINED:
            a, fpy = m.DEFINED[n]
            setattr(m, fpy.__name__, f); m.FN[a] = f; m.NAMES[n] = f
    if run_ctors:
        for c in m.CTORS: c()
    return m

def run_in_big_thread(fn, *a):
    """run fn in a thread with a large stack (deep C++ recursion = deep Python recursion)"""
    sys.setrecursionlimit(200000)
    threading.stack_size(1 << 30)
    box = {}
    def tgt():
        try: box['r'] = fn(*a)
        except BaseException as e:
            box['e'] = e
    t = threading.Thread(target=tgt); t.start(); t.join()
    if 'e' in box: raise box['e']
    return box.get('r')
