"""vfs: model of the file system behind std::basic_filebuf / std::filesystem::path for engine E2.
rt.VFS maps a path (bytes) to the file content (bytes). basic_filebuf members are replaced by models that expose the whole file through the
stream buffer's get area (eback/gptr/egptr), so the real (IR) istream code works on it. Writes are recorded in rt.VFS_WRITES.
std::filesystem::path keeps its real string representation; the component list (_List, only built inside libstdc++.so) stays empty, which is
sufficient for the callers that only use string() (get_info_virtual, add_mapping, read_file). Members that need components raise Unmodeled."""
import symrt as rt
from symrt import S, ld, st, Unmodeled, M64
import cxxlib
EXT = rt.EXT
rt.VFS = {}
rt.VFS_WRITES = []
rt.VFS_OPENED = []
FB = {}      # filebuf address -> dict(buf, size, open, path)
FB_SIZE = 240

def _reg(names, f, override=True):
    for n in names:
        EXT[n] = f
        if override: rt.OVERRIDE[n] = f
def _fb_of(addr):
    for a, stt in FB.items():
        if a <= addr < a + FB_SIZE: return stt
    return None
P = '_ZNSt13basic_filebufIcSt11char_traitsIcEE'
def os_norm(path):
    """what the operating system does with a path string: empty components and '.' vanish, '..' climbs (not above /); a component after a
    regular file (incl. '.', '..' and a trailing separator) makes the path invalid (ENOTDIR) -> returns a name that cannot exist"""
    if not path.startswith(b'/'): path = rt.VFS_CWD[0] + b'/' + path
    parts = []
    comps = path.split(b'/')
    for i, c in enumerate(comps):
        if i == 0: continue
        cur = b'/' + b'/'.join(parts)
        if cur in rt.VFS and parts: return b'\0ENOTDIR:' + path      # something (even an empty component = separator) follows a regular file
        if c in (b'', b'.'): continue
        if c == b'..':
            if parts: parts.pop()
            continue
        parts.append(c)
    return b'/' + b'/'.join(parts)
DIR_SEEK_END = 0x7FFFFFFFFFFFFFFF     # what lseek(fd_of_a_directory, 0, SEEK_END) reports on Linux (ext4, tmpfs)
def is_dir(path):
    return path not in rt.VFS and any(k.startswith(path.rstrip(b'/') + b'/') for k in rt.VFS if isinstance(k, bytes))
def fb_open(this, name, mode):
    path = os_norm(rt.cstr(name))
    mode &= 0xFFFFFFFF
    rt.VFS_OPENED.append((path, mode))
    if this in FB and FB[this]['open']: return 0
    if is_dir(path):
        if mode & 16: return 0                                   # EISDIR for any writing mode
        # open(2) of a directory for reading succeeds; reads fail (EISDIR) and seeking to the end reports a huge offset
        buf = rt.new_obj(1, 'heap', 'directory stream %r' % path)
        st(this + 8, 8, buf); st(this + 16, 8, buf); st(this + 24, 8, buf)
        FB[this] = dict(buf=buf, size=0, open=True, path=path, mode=mode, isdir=True)
        return this
    if path not in rt.VFS:
        if mode & 16 and not (mode & 8 and not mode & 32):      # out (and not in-without-trunc): the file would be created
            rt.VFS_WRITES.append(('create', path)); rt.VFS[path] = b''
        else: return 0
    if mode & 32: rt.VFS_WRITES.append(('truncate', path)); rt.VFS[path] = b''
    data = rt.VFS[path]
    buf = rt.new_obj(max(len(data), 1), 'heap', 'file content of %r (%d bytes)' % (path, len(data)))
    o = rt.OBJ[buf >> 32]; o.data[0:len(data)] = data if isinstance(data, (bytes, bytearray)) else bytes(len(data))
    if not isinstance(data, (bytes, bytearray)):
        for i, v in enumerate(data): st(buf + i, 1, v)            # symbolic file content: list of byte values
    n = len(data)
    st(this + 8, 8, buf); st(this + 16, 8, buf + (n if mode & 2 else 0)); st(this + 24, 8, buf + n)
    FB[this] = dict(buf=buf, size=n, open=True, path=path, mode=mode)
    return this
def fb_close(this):
    s_ = FB.get(this)
    if s_ is None or not s_['open']: return 0
    s_['open'] = False
    st(this + 8, 8, 0); st(this + 16, 8, 0); st(this + 24, 8, 0)
    return this
def fb_underflow(this):
    cur = ld(this + 16, 8); end = ld(this + 24, 8)
    if cur and cur < end:
        c = ld(cur, 1)
        return c.zext(32) if c.__class__ is S else c
    return 0xFFFFFFFF
def sb_uflow(this):
    vt = ld(this, 8)
    f = rt.FN.get(ld(vt + 9 * 8, 8))
    r = f(this)
    if r.__class__ is not S and r == 0xFFFFFFFF: return r
    st(this + 16, 8, ld(this + 16, 8) + 1)
    return r
def fb_xsgetn(this, dst, n):
    if n.__class__ is S: n = rt.concretize(n)
    if n >> 63: return 0
    cur = ld(this + 16, 8); end = ld(this + 24, 8)
    k = min(n, end - cur) if cur else 0
    if k > 0:
        rt.memcpy(dst, cur, k); st(this + 16, 8, cur + k)
    return k
def fb_seekoff(this, off, way, mode):
    s_ = FB.get(this)
    if s_ is None or not s_['open']: return [M64, 0]
    if off.__class__ is S: off = rt.concretize(off)
    if off >> 63: off -= 1 << 64
    beg = ld(this + 8, 8); cur = ld(this + 16, 8); end = ld(this + 24, 8)
    way &= 0xFFFFFFFF
    if s_.get('isdir'):
        if way == 2: s_['dirpos'] = DIR_SEEK_END + off
        elif way == 0: s_['dirpos'] = off
        else: s_['dirpos'] = s_.get('dirpos', 0) + off
        return [s_['dirpos'] & M64, 0]
    base = 0 if way == 0 else (cur - beg) if way == 1 else (end - beg)
    np = base + off
    if np < 0 or np > end - beg: return [M64, 0]
    st(this + 16, 8, beg + np)
    return [np, 0]
def fb_seekpos(this, pos, state, mode):
    return fb_seekoff(this, pos, 0, mode)
def fb_showmanyc(this):
    cur = ld(this + 16, 8); end = ld(this + 24, 8)
    return (end - cur) if cur else 0
def fb_write(this, *a):
    s_ = FB.get(this)
    rt.VFS_WRITES.append(('write', s_['path'] if s_ else None))
    return 0xFFFFFFFF if len(a) == 1 else 0
_reg([P + '4openEPKcSt13_Ios_Openmode'], fb_open)
_reg([P + '5closeEv'], fb_close)
_reg([P + '9underflowEv'], fb_underflow)
_reg([P + '6xsgetnEPcl'], fb_xsgetn)
_reg([P + '7seekoffElSt12_Ios_SeekdirSt13_Ios_Openmode'], fb_seekoff)
_reg([P + '7seekposESt4fposI11__mbstate_tESt13_Ios_Openmode'], fb_seekpos)
_reg([P + '9showmanycEv'], fb_showmanyc)
_reg([P + '4syncEv', P + '5imbueERKSt6locale', P + '19_M_terminate_outputEv'], lambda this, *a: 0)
_reg([P + '6setbufEPcl'], lambda this, b, n: this)
_reg([P + '8overflowEi', P + '6xsputnEPKcl'], fb_write)
_reg([P + '9pbackfailEi'], lambda this, c: 0xFFFFFFFF)
_reg([P + 'D2Ev', P + 'D1Ev'], lambda this: fb_close(this) and None)
def fb_d0(this): fb_close(this); rt.free(this)
_reg([P + 'D0Ev'], fb_d0)
Q = '_ZNSt15basic_streambufIcSt11char_traitsIcEE'
_reg([Q + '5uflowEv'], sb_uflow, override=False)
_reg([Q + '4syncEv'], lambda this: 0, override=False)
_reg([Q + '5imbueERKSt6locale'], lambda this, l: None, override=False)
_reg([Q + '6setbufEPcl'], lambda this, b, n: this, override=False)
_reg([Q + '9underflowEv', Q + '9pbackfailEi', Q + '8overflowEi'], lambda this, *a: 0xFFFFFFFF, override=False)
_reg([Q + '9showmanycEv'], lambda this: 0, override=False)
_reg([Q + '7seekoffElSt12_Ios_SeekdirSt13_Ios_Openmode', Q + '7seekposESt4fposI11__mbstate_tESt13_Ios_Openmode'], lambda this, *a: [M64, 0], override=False)
def sb_xsgetn(this, dst, n):
    k = 0
    if n.__class__ is S: n = rt.concretize(n)
    while k < n:
        c = cxxlib._sb_getc(this)
        if c.__class__ is not S and c == -1: break
        st(dst + k, 1, c); k += 1
    return k
_reg([Q + '6xsgetnEPcl'], sb_xsgetn, override=False)
def sb_xsputn(this, src, n):
    vt = ld(this, 8); ov = rt.FN.get(ld(vt + 13 * 8, 8)); k = 0
    if n.__class__ is S: n = rt.concretize(n)
    while k < n:
        cur = ld(this + 40, 8); end = ld(this + 48, 8)
        if cur and cur < end:
            st(cur, 1, ld(src + k, 1)); st(this + 40, 8, cur + 1)
        else:
            r = ov(this, ld(src + k, 1))
            if r.__class__ is not S and (r & 0xFFFFFFFF) == 0xFFFFFFFF: break
        k += 1
    return k
_reg([Q + '6xsputnEPKcl'], sb_xsputn, override=False)
_reg(['_ZNSt12__basic_fileIcEC1EP15pthread_mutex_t', '_ZNSt12__basic_fileIcED1Ev', '_ZNSt12__basic_fileIcEC2EP15pthread_mutex_t', '_ZNSt12__basic_fileIcED2Ev'], lambda this, *a: None, override=False)
def bf_is_open(this):
    s_ = _fb_of(this)
    return 1 if s_ and s_['open'] else 0
_reg(['_ZNKSt12__basic_fileIcE7is_openEv'], bf_is_open, override=False)

# ---- std::filesystem::path: faithful in-memory representation (GCC 12 layout) built by Python models of the out-of-line members
# path = { std::string _M_pathname (32 bytes); _List _M_cmpts (8 bytes: pointer to _Impl, low 2 bits = _Type) }
# _Type: 0 _Multi, 1 _Root_name, 2 _Root_dir, 3 _Filename.  _Impl = { int size; int capacity; _Cmpt[] at +8 }, _Cmpt = { path (40 bytes); size_t pos } = 48 bytes
FS = '_ZNSt10filesystem7__cxx114path'
def _std_string(p):
    n = ld(p + 8, 8); d = ld(p, 8)
    return rt.read_bytes(d, n)
def _set_string(sp, data):
    cxxlib._str_assign(sp, list(data))
def components(s_):
    """libstdc++ decomposition of a POSIX path: list of (text, type, pos)"""
    out = []; i = 0; n = len(s_)
    if n == 0: return out
    if s_[0:1] == b'/':
        out.append((b'/', 2, 0))
        while i < n and s_[i:i + 1] == b'/': i += 1
    while i < n:
        j = i
        while j < n and s_[j:j + 1] != b'/': j += 1
        out.append((s_[i:j], 3, i)); i = j
        if i < n:
            while i < n and s_[i:i + 1] == b'/': i += 1
            if i == n: out.append((b'', 3, n))       # trailing separator: empty filename
    return out
def _init_string(sp, data):
    st(sp, 8, sp + 16); st(sp + 8, 8, 0); st(sp + 16, 1, 0)
    _set_string(sp, data)
def _free_impl(ptr):
    base = ptr & ~3
    if base == 0: return
    n = ld(base, 4)
    for k in range(n):
        c = base + 8 + 48 * k
        d = ld(c, 8)
        if d != c + 16: rt.free(d)
    rt.free(base)
def split_cmpts(this):
    old = ld(this + 32, 8)
    _free_impl(old)
    comps = components(_std_string(this))
    if len(comps) == 0: st(this + 32, 8, 3 if False else 0 | 3); st(this + 32, 8, 3); return      # empty path: _Filename, no components
    if len(comps) == 1:
        st(this + 32, 8, comps[0][1]); return
    impl = rt.malloc(8 + 48 * len(comps))
    st(impl, 4, len(comps)); st(impl + 4, 4, len(comps))
    for k, (txt, ty, pos) in enumerate(comps):
        c = impl + 8 + 48 * k
        _init_string(c, txt); st(c + 32, 8, ty); st(c + 40, 8, pos)
    st(this + 32, 8, impl)
_reg([FS + '14_M_split_cmptsEv'], split_cmpts, override=False)
_reg([FS + '5_ListC1Ev', FS + '5_ListC2Ev'], lambda this: st(this, 8, 3), override=False)
def list_copy(this, other):
    src = ld(other, 8); base = src & ~3
    if base == 0: st(this, 8, src); return
    n = ld(base, 4)
    impl = rt.malloc(8 + 48 * n); st(impl, 4, n); st(impl + 4, 4, n)
    for k in range(n):
        c = base + 8 + 48 * k; d = impl + 8 + 48 * k
        _init_string(d, _std_string(c)); st(d + 32, 8, ld(c + 32, 8) & 3); st(d + 40, 8, ld(c + 40, 8))
    st(this, 8, impl | (src & 3))
_reg([FS + '5_ListC1ERKS2_', FS + '5_ListC2ERKS2_'], list_copy, override=False)
_reg(['_ZNKSt10filesystem7__cxx114path5_List13_Impl_deleterclEPNS2_5_ImplE'], lambda this, p: _free_impl(p), override=False)
def list_begin(this):
    base = ld(this, 8) & ~3
    return base + 8 if base else 0
def list_end(this):
    base = ld(this, 8) & ~3
    return base + 8 + 48 * ld(base, 4) if base else 0
_reg(['_ZNKSt10filesystem7__cxx114path5_List5beginEv'], list_begin, override=False)
_reg(['_ZNKSt10filesystem7__cxx114path5_List3endEv'], list_end, override=False)
def _new_path(sret, data):
    _init_string(sret, data); st(sret + 32, 8, 3)
    split_cmpts(sret)
def _assign_path(this, data):
    _set_string(this, data); split_cmpts(this)
def normal_form(s_):
    """std::filesystem::path::lexically_normal for POSIX paths (the algorithm of [fs.path.generic]/6)"""
    if not s_: return b''
    comps = components(s_)
    out = []
    for txt, ty, pos in comps:
        if ty == 2: out.append(b'/'); continue
        if txt == b'.': 
            out.append(None); continue          # dot: removed, but may leave a trailing separator
        if txt == b'..':
            real = [x for x in out if x is not None]
            if real and real[-1] not in (b'/', b'..'):
                while out and out[-1] is None: out.pop()
                out.pop(); out.append(None); continue
            if real and real[-1] == b'/': continue      # /.. -> /
            out.append(b'..'); continue
        if txt == b'': out.append(None); continue
        out.append(txt)
    trailing = bool(out) and out[-1] is None
    parts = [x for x in out if x is not None]
    if not parts: return b'.'
    r = b''
    for k, x in enumerate(parts):
        if x == b'/': r += b'/'
        else: r += x + (b'/' if k + 1 < len(parts) else b'')
    if trailing and parts[-1] not in (b'/', b'..'): r += b'/'
    return r
def lexically_normal(sret, this): _new_path(sret, normal_form(_std_string(this)))
_reg(['_ZNKSt10filesystem7__cxx114path16lexically_normalEv'], lexically_normal, override=False)
def find_extension(this):
    s_ = _std_string(this)
    name = s_.rsplit(b'/', 1)[-1]
    if name in (b'.', b'..') or b'.' not in name[1:]: return [0, M64]
    pos = name.rfind(b'.')
    # pair<const string*, size_t>: for a multi-component path the string of the last component, else the path string itself
    base = ld(this + 32, 8) & ~3
    if base:
        n = ld(base, 4); last = base + 8 + 48 * (n - 1)
        return [last, pos]
    return [this, pos]
_reg(['_ZNKSt10filesystem7__cxx114path17_M_find_extensionEv'], find_extension, override=False)
def has_root_directory(this): return 1 if _std_string(this).startswith(b'/') else 0
_reg(['_ZNKSt10filesystem7__cxx114path18has_root_directoryEv'], has_root_directory, override=False)
def parent_path(sret, this):
    s_ = _std_string(this); comps = components(s_)
    if len(comps) <= 1: _new_path(sret, s_ if comps and comps[0][1] == 2 else b''); return
    last = comps[-1]
    r = s_[:last[2]]
    # strip the separators before the last component unless it is the root directory
    while len(r) > 1 and r.endswith(b'/'): r = r[:-1]
    _new_path(sret, r)
_reg(['_ZNKSt10filesystem7__cxx114path11parent_pathEv'], parent_path, override=False)
def path_append(this, other):
    a = _std_string(this); b = _std_string(other)
    if b.startswith(b'/'): r = b
    elif not a or a.endswith(b'/'): r = a + b
    else: r = a + b'/' + b
    _assign_path(this, r); return this
_reg(['_ZNSt10filesystem7__cxx114pathdVERKS1_'], path_append, override=False)
def _cmp(a, b):
    ca = [t for t, ty, p in components(a)]; cb = [t for t, ty, p in components(b)]
    return 0 if ca == cb else (0xFFFFFFFF if ca < cb else 1)
def path_compare(this, other): return _cmp(_std_string(this), _std_string(other))
def path_compare_sv(this, n, d): return _cmp(_std_string(this), rt.read_bytes(d, n))
_reg(['_ZNKSt10filesystem7__cxx114path7compareERKS1_'], path_compare, override=False)
_reg(['_ZNKSt10filesystem7__cxx114path7compareESt17basic_string_viewIcSt11char_traitsIcEE'], path_compare_sv, override=False)
def fs_absolute(sret, p):
    s_ = _std_string(p)
    _new_path(sret, s_ if s_.startswith(b'/') else rt.VFS_CWD[0] + b'/' + s_)
rt.VFS_CWD = [b'/cwd']
_reg(['_ZNSt10filesystem8absoluteERKNS_7__cxx114pathE'], fs_absolute, override=False)
def fs_status(path):
    s_ = os_norm(_std_string(path))
    # file_status {file_type, perms} in one i64: regular = 1, directory = 2, not_found = -1 -> encoded as {i32 type, i32 perms}
    if s_ in rt.VFS: return 1 | (0o644 << 32)
    if any(k.startswith(s_.rstrip(b'/') + b'/') for k in rt.VFS): return 2 | (0o755 << 32)
    return 0xFFFFFFFF | (0xFFFF << 32)
_reg(['_ZNSt10filesystem6statusERKNS_7__cxx114pathE'], fs_status, override=False)
def fs_status_ec(path, ec):
    r = fs_status(path)
    # error_code {int value; const error_category* cat}: cleared, or ENOENT with the category it already carries
    st(ec, 4, 2 if (r & 0xFFFFFFFF) == 0xFFFFFFFF else 0)
    return r
_reg(['_ZNSt10filesystem6statusERKNS_7__cxx114pathERSt10error_code'], fs_status_ec, override=False)

def fb_ctor(this):
    """basic_filebuf(): streambuf base with this class's vtable, empty get/put areas; the codecvt/locale set-up of the real constructor is skipped"""
    vt = None
    for m in rt.MODULES:
        a = m.GLOBALS.get('_ZTVSt13basic_filebufIcSt11char_traitsIcEE')
        if a: vt = a; break
    if vt is None: raise Unmodeled('basic_filebuf vtable not found')
    rt.memset(this, 0, FB_SIZE)
    st(this, 8, vt + 16)
_reg([P + 'C2Ev', P + 'C1Ev'], fb_ctor)

def path_assign(this, other):
    _assign_path(this, _std_string(other)); return this
_reg(['_ZNSt10filesystem7__cxx114pathaSERKS1_'], path_assign, override=False)
def path_assign_string(this, sp):
    _assign_path(this, _std_string(sp)); return this
_reg(['_ZNSt10filesystem7__cxx114pathaSEONSt7__cxx1112basic_stringIcSt11char_traitsIcESaIcEEE'], path_assign_string, override=False)

# ---- __basic_file level: basic_filebuf::open / close are non-virtual and may have been inlined into their callers by clang; the inlined bodies
# call these members of the embedded __basic_file. The filebuf-level models attach lazily to a file opened this way.
BF = {}     # __basic_file address -> dict(path, mode, open)
def bf_open(this, name, mode, prot=0):
    path = os_norm(rt.cstr(name)); mode &= 0xFFFFFFFF
    rt.VFS_OPENED.append((path, mode))
    if this in BF and BF[this]['open']: return 0
    if is_dir(path):
        if mode & 16: return 0
        BF[this] = dict(path=path, mode=mode, open=True, isdir=True)
        return this
    if path not in rt.VFS:
        if mode & 16 and not (mode & 8 and not mode & 32): rt.VFS_WRITES.append(('create', path)); rt.VFS[path] = b''
        else: return 0
    if mode & 32: rt.VFS_WRITES.append(('truncate', path)); rt.VFS[path] = b''
    BF[this] = dict(path=path, mode=mode, open=True)
    return this
def bf_close(this):
    s_ = BF.get(this)
    if s_ is None or not s_['open']: return 0
    s_['open'] = False
    for fb, stt in FB.items():
        if fb <= this < fb + FB_SIZE: stt['open'] = False
    return this
_reg(['_ZNSt12__basic_fileIcE4openEPKcSt13_Ios_Openmodei'], bf_open, override=False)
_reg(['_ZNSt12__basic_fileIcE5closeEv'], bf_close, override=False)
def _bf_of(fb):
    for a, stt in BF.items():
        if fb <= a < fb + FB_SIZE and stt['open']: return stt
    return None
def _attach(this):
    s_ = FB.get(this)
    if s_ is not None and s_['open']: return s_
    b = _bf_of(this)
    if b is None: return None
    if b.get('isdir'):
        buf = rt.new_obj(1, 'heap', 'directory stream %r' % b['path'])
        st(this + 8, 8, buf); st(this + 16, 8, buf); st(this + 24, 8, buf)
        FB[this] = dict(buf=buf, size=0, open=True, path=b['path'], mode=b['mode'], isdir=True)
        return FB[this]
    data = rt.VFS[b['path']]; n = len(data)
    buf = rt.new_obj(max(n, 1), 'heap', 'file content of %r (%d bytes)' % (b['path'], n))
    if isinstance(data, (bytes, bytearray)): rt.OBJ[buf >> 32].data[0:n] = data
    else:
        for i, v in enumerate(data): st(buf + i, 1, v)
    st(this + 8, 8, buf); st(this + 16, 8, buf); st(this + 24, 8, buf + n)
    FB[this] = dict(buf=buf, size=n, open=True, path=b['path'], mode=b['mode'])
    return FB[this]
_orig = dict(underflow=fb_underflow, xsgetn=fb_xsgetn, seekoff=fb_seekoff, showmanyc=fb_showmanyc)
def fb_underflow2(this): _attach(this); return _orig['underflow'](this)
def fb_xsgetn2(this, dst, n): _attach(this); return _orig['xsgetn'](this, dst, n)
def fb_seekoff2(this, off, way, mode): _attach(this); return _orig['seekoff'](this, off, way, mode)
def fb_seekpos2(this, pos, state, mode): _attach(this); return _orig['seekoff'](this, pos, 0, mode)
def fb_showmanyc2(this): _attach(this); return _orig['showmanyc'](this)
_reg([P + '9underflowEv'], fb_underflow2)
_reg([P + '6xsgetnEPcl'], fb_xsgetn2)
_reg([P + '7seekoffElSt12_Ios_SeekdirSt13_Ios_Openmode'], fb_seekoff2)
_reg([P + '7seekposESt4fposI11__mbstate_tESt13_Ios_Openmode'], fb_seekpos2)
_reg([P + '9showmanycEv'], fb_showmanyc2)
def bf_is_open2(this):
    s_ = BF.get(this)
    if s_ is not None: return 1 if s_['open'] else 0
    s_ = _fb_of(this)
    return 1 if s_ and s_['open'] else 0
_reg(['_ZNKSt12__basic_fileIcE7is_openEv'], bf_is_open2, override=False)
