"""explore: run symbolic cases in forked workers (one root process per case, intra-case forks share a token pool),
collect per-path result records, and check structural exhaustiveness of the explored decision trees."""
import os, sys, json, time, glob, shutil, signal, fractions
import symrt as rt

def run_cases(cases, outdir, jobs=16, case_timeout=600, total_timeout=None, quiet=True):
    """cases: list of (case_id, callable). Each callable runs in a fresh fork of the *current* process image
    (so all initialisation done before calling run_cases is shared, copy-on-write)."""
    if os.path.exists(outdir): shutil.rmtree(outdir)
    os.makedirs(outdir)
    r, w = os.pipe(); os.set_blocking(r, False)
    os.write(w, b'x' * jobs)
    t0 = time.time()
    running = {}   # pid -> (case_id, start)
    pending = list(cases)
    timed_out = []
    def reap(block):
        while running:
            try:
                pid, st = os.waitpid(-1, 0 if block else os.WNOHANG)
            except ChildProcessError:
                running.clear(); return
            if pid == 0: return
            if pid in running:
                cid, ts = running.pop(pid)
                if st != 0:
                    with open(os.path.join(outdir, 'res.crash.%d.jsonl' % pid), 'a') as f:
                        f.write(json.dumps(dict(case=cid, verdict='engine_error', detail='worker exited with status %d' % st, decisions='?', violations=[])) + '\n')
                if block: return
    while pending or running:
        while pending and len(running) < jobs:
            cid, fn = pending.pop(0)
            sys.stdout.flush(); sys.stderr.flush()
            pid = os.fork()
            if pid == 0:
                try:
                    os.setpgid(0, 0)
                except Exception: pass
                if quiet:
                    dn = os.open(os.devnull, os.O_WRONLY); os.dup2(dn, 1)
                rt.CFG['deadline'] = time.time() + case_timeout
                rt.run_case(cid, fn, outdir, (r, w))
                os._exit(0)
            running[pid] = (cid, time.time())
        # timeouts
        now = time.time()
        for pid, (cid, ts) in list(running.items()):
            if now - ts > case_timeout + 30 or (total_timeout and now - t0 > total_timeout):
                try: os.killpg(pid, signal.SIGKILL)
                except Exception:
                    try: os.kill(pid, signal.SIGKILL)
                    except Exception: pass
                timed_out.append(cid)
                with open(os.path.join(outdir, 'res.timeout.%d.jsonl' % pid), 'a') as f:
                    f.write(json.dumps(dict(case=cid, verdict='budget', detail='case wall-time budget exceeded; worker killed', decisions='?', violations=[])) + '\n')
        if running:
            reap(False)
            if running and (len(running) >= jobs or not pending): time.sleep(0.02)
    os.close(r); os.close(w)
    return collect(outdir)

def collect(outdir):
    recs = []
    for f in sorted(glob.glob(os.path.join(outdir, 'res.*.jsonl'))):
        for l in open(f):
            l = l.strip()
            if l:
                try: recs.append(json.loads(l))
                except Exception: recs.append(dict(case=None, verdict='engine_error', detail='unparsable result line', decisions='?', violations=[]))
    return recs

def summarize(recs):
    """per-case summary incl. structural exhaustiveness: the leaves' decision strings must form a complete prefix code"""
    by = {}
    for r in recs: by.setdefault(r.get('case'), []).append(r)
    out = {}
    for cid, rs in by.items():
        kraft = fractions.Fraction(0); ok = True
        for r in rs:
            d = r.get('decisions', '')
            if '?' in d: ok = False; continue
            kraft += fractions.Fraction(1, 2 ** len(d))
        verdicts = {}
        for r in rs: verdicts[r['verdict']] = verdicts.get(r['verdict'], 0) + 1
        out[cid] = dict(paths=len(rs), complete=(ok and kraft == 1), verdicts=verdicts,
                        queries=sum(r.get('nquery', 0) for r in rs), solver_s=round(sum(r.get('solver_s', 0) for r in rs), 3),
                        steps=sum(r.get('steps', 0) for r in rs),
                        violations=[dict(v, case=cid) for r in rs for v in r.get('violations', [])])
    return out
