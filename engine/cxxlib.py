"""cxxlib: Python models of the libc / libstdc++ / libsupc++ externals that remain after the C++ units
(with libstdc++'s templates instantiated in the IR through harness/shim) are lowered to IR.
Every model is part of the trusted base; names are the mangled symbols. Models operate on symrt memory."""
import math, struct, ctypes, time
import z3
import symrt as rt
from symrt import S, SF, Fault, Unmodeled, CxxThrow, ld, st, M64

EXT = rt.EXT
def ext(*names):
    def deco(f):
        for n in names: EXT[n] = f
        return f
    return deco

# ------------------------------------------------------------------ allocation
@ext('_Znwm', '_Znam', 'malloc')
def _new(n): return rt.malloc(n)
@ext('_ZdlPv', '_ZdaPv', 'free', '_ZdlPvm', '_ZdaPvm')
def _delete(p, *a): rt.free(p)
@ext('calloc')
def _calloc(a, b): return rt.malloc(a * b)
@ext('realloc')
def _realloc(p, n):
    q = rt.malloc(n)
    if p:
        o = rt.OBJ.get(p >> 32)
        rt.memcpy(q, p, min(n, o.size)); rt.free(p)
    return q

# ------------------------------------------------------------------ libc: mem / str
@ext('memcmp', 'bcmp')
def _memcmp(a, b, n):
    if n.__class__ is S: n = rt.concretize(n)
    for i in range(n):
        x = ld(a + i, 1); y = ld(b + i, 1)
        if x.__class__ is S or y.__class__ is S:
            if x != y:
                return 0xFFFFFFFF if (x < y) else 1
        elif x != y:
            return 0xFFFFFFFF if x < y else 1
    return 0
@ext('memchr')
def _memchr(p, c, n):
    if n.__class__ is S: n = rt.concretize(n)
    c = c & 255
    for i in range(n):
        x = ld(p + i, 1)
        if x == c: return p + i
    return 0
@ext('strlen')
def _strlen(p):
    n = 0
    while True:
        c = ld(p + n, 1)
        if c == 0: return n
        n += 1
@ext('strcmp')
def _strcmp(a, b):
    i = 0
    while True:
        x = ld(a + i, 1); y = ld(b + i, 1)
        if x != y: return 0xFFFFFFFF if (x < y) else 1
        if x == 0: return 0
        i += 1
@ext('strncmp')
def _strncmp(a, b, n):
    for i in range(rt.concretize(n)):
        x = ld(a + i, 1); y = ld(b + i, 1)
        if x != y: return 0xFFFFFFFF if (x < y) else 1
        if x == 0: return 0
    return 0
@ext('memcpy')
def _memcpy(d, s_, n): rt.memcpy(d, s_, n); return d
@ext('memmove')
def _memmove(d, s_, n): rt.memcpy(d, s_, n, True); return d
@ext('memset')
def _memset(d, c, n): rt.memset(d, c, n); return d

def _sx32(v): return v - (1 << 32) if v >> 31 else v
@ext('tolower')
def _tolower(c):
    if c.__class__ is S:
        lo = (c ^ 0x80000000) >= (65 ^ 0x80000000); hi = (c ^ 0x80000000) <= (90 ^ 0x80000000)
        return rt.select(lo & hi, (c + 32) & 0xFFFFFFFF, c, 32)
    v = _sx32(c)
    return (v + 32) & 0xFFFFFFFF if 65 <= v <= 90 else c
@ext('toupper')
def _toupper(c):
    if c.__class__ is S:
        lo = (c ^ 0x80000000) >= (97 ^ 0x80000000); hi = (c ^ 0x80000000) <= (122 ^ 0x80000000)
        return rt.select(lo & hi, (c - 32) & 0xFFFFFFFF, c, 32)
    v = _sx32(c)
    return (v - 32) & 0xFFFFFFFF if 97 <= v <= 122 else c
@ext('isspace')
def _isspace(c):
    if c.__class__ is S: c = rt.concretize(c)
    return 1 if _sx32(c) in (32, 9, 10, 11, 12, 13) else 0
@ext('isdigit')
def _isdigit(c):
    if c.__class__ is S: c = rt.concretize(c)
    return 1 if 48 <= _sx32(c) <= 57 else 0
@ext('isalpha')
def _isalpha(c):
    if c.__class__ is S: c = rt.concretize(c)
    v = _sx32(c); return 1 if (65 <= v <= 90 or 97 <= v <= 122) else 0
@ext('isalnum')
def _isalnum(c):
    if c.__class__ is S: c = rt.concretize(c)
    v = _sx32(c); return 1 if (65 <= v <= 90 or 97 <= v <= 122 or 48 <= v <= 57) else 0

_errno = [0]
@ext('__errno_location')
def _errno_loc():
    if not _errno[0]: _errno[0] = rt.new_obj(4, 'global', 'errno')
    return _errno[0]

# number parsing: exact C semantics on concrete strings via the C library itself
_libc = ctypes.CDLL('libc.so.6', use_errno=True)
def _c_strto(fn, restype, p, endp, base=None):
    s_ = rt.cstr(p)
    buf = ctypes.create_string_buffer(s_ + b'\0')
    end = ctypes.c_char_p()
    f = getattr(_libc, fn); f.restype = restype
    ctypes.set_errno(0)
    if base is None:
        f.argtypes = [ctypes.c_char_p, ctypes.POINTER(ctypes.c_char_p)]
        r = f(buf, ctypes.byref(end))
    else:
        f.argtypes = [ctypes.c_char_p, ctypes.POINTER(ctypes.c_char_p), ctypes.c_int]
        r = f(buf, ctypes.byref(end), _sx32(base))
    e = ctypes.get_errno()
    consumed = ctypes.cast(end, ctypes.c_void_p).value - ctypes.addressof(buf)
    if endp: st(endp, 8, p + consumed)
    if e: st(_errno_loc(), 4, e)
    return r
@ext('strtod')
def _strtod(p, endp): return _c_strto('strtod', ctypes.c_double, p, endp)
@ext('strtof')
def _strtof(p, endp): return _c_strto('strtof', ctypes.c_float, p, endp)
@ext('strtol', 'strtoll')
def _strtol(p, endp, base): return _c_strto('strtol', ctypes.c_long, p, endp, base) & M64
@ext('strtoul', 'strtoull')
def _strtoul(p, endp, base): return _c_strto('strtoul', ctypes.c_ulong, p, endp, base) & M64

def c_format(fmt, args):
    """snprintf through the C library for the conversions the code base uses (concrete arguments only)"""
    out = b''; i = 0; ai = 0
    while i < len(fmt):
        c = fmt[i:i + 1]
        if c != b'%': out += c; i += 1; continue
        j = i + 1
        while j < len(fmt) and fmt[j:j + 1] in b'-+ #0123456789.*lhzjt': j += 1
        conv = fmt[j:j + 1]; spec = fmt[i:j + 1]
        if conv == b'%': out += b'%'; i = j + 1; continue
        cargs = []
        nstar = spec.count(b'*')
        for _ in range(nstar):
            a = args[ai]; ai += 1
            if a.__class__ is S: a = rt.concretize(a)
            cargs.append(ctypes.c_int(_sx32(a & 0xFFFFFFFF)))
        a = args[ai]; ai += 1
        if a.__class__ is SF: a = rt.sym_float_value(a, 'printf-style formatting of a symbolic value')
        elif a.__class__ is S: a = rt.concretize(a)
        if conv in b'diouxXc':
            if b'l' in spec or b'z' in spec or b'j' in spec: cargs.append(ctypes.c_long(a - (1 << 64) if a >> 63 else a))
            else: cargs.append(ctypes.c_int(_sx32(a & 0xFFFFFFFF)))
        elif conv in b'eEfFgGaA': cargs.append(ctypes.c_double(a))
        elif conv == b's': cargs.append(ctypes.c_char_p(rt.cstr(a)))
        elif conv == b'p': cargs.append(ctypes.c_void_p(a))
        else: raise Unmodeled('printf conversion %r' % spec)
        buf = ctypes.create_string_buffer(4096)
        n = _libc.snprintf(buf, 4096, spec, *cargs)
        if n >= 4096:
            buf = ctypes.create_string_buffer(n + 1); _libc.snprintf(buf, n + 1, spec, *cargs)
        out += buf.raw[:n]
        i = j + 1
    return out
@ext('snprintf')
def _snprintf(buf, size, fmt, *va):
    out = c_format(rt.cstr(fmt), va)
    if size.__class__ is S: size = rt.concretize(size)
    if size > 0:
        w = out[:size - 1] + b'\0'
        rt.write_bytes(buf, w)
    return len(out) & 0xFFFFFFFF
@ext('vsnprintf')
def _vsnprintf(*a): raise Unmodeled('vsnprintf')
@ext('abort')
def _abort(): raise Fault(rt.record_violation('abort', 'abort() called'))
@ext('__assert_fail')
def _assert_fail(expr, file, line, func):
    raise Fault(rt.record_violation('abort', 'assert failed: %s (%s:%d)' % (rt.cstr(expr).decode(), rt.cstr(file).decode(), line)))
@ext('_ZSt9terminatev')
def _terminate(): raise Fault(rt.record_violation('abort', 'std::terminate() called'))
@ext('rand')
def _rand():
    rt.PS.nrand = getattr(rt.PS, 'nrand', 0) + 1
    v = rt.fresh_bv('rand%d' % rt.PS.nrand, 32)
    rt.assume(v < 0x80000000)
    return v
@ext('dlopen', 'dlsym', 'dlclose', 'dlerror')
def _dl(*a): raise Unmodeled('dlopen family (FFI)')
_ERRCAT = {}
def _errcat(name):
    def f():
        if name not in _ERRCAT: _ERRCAT[name] = rt.new_obj(16, 'global', 'std::error_category (%s): opaque, never dispatched on' % name)
        return _ERRCAT[name]
    return f
EXT['_ZNSt3_V215system_categoryEv'] = _errcat('system'); EXT['_ZNSt3_V216generic_categoryEv'] = _errcat('generic')
@ext('getenv')
def _getenv(p): return 0

# libm (single precision): exact on concrete operands via the C library the native build links
def _libm1(name):
    f = rt._cf1(name)
    def m(x):
        if x.__class__ is SF:
            if name in ('sqrtf', 'floorf', 'ceilf', 'roundf', 'truncf', 'fabsf'): return rt.fround(name[:-1], x, 32)
            return rt.sym_contract(name, 32, [x])
        return f(x)
    return m
for _n in ('acosf', 'asinf', 'atanf', 'cosf', 'sinf', 'tanf', 'expf', 'logf', 'log10f', 'sqrtf', 'floorf', 'ceilf', 'roundf', 'truncf', 'fabsf', 'exp2f', 'log2f'):
    EXT[_n] = _libm1(_n)
def _libm2(name):
    f = rt._cf2(name)
    def m(x, y):
        if x.__class__ is SF or y.__class__ is SF:
            if name == 'copysignf': raise Unmodeled('copysignf on symbolic float')
            return rt.sym_contract(name, 32, [x, y])
        return f(x, y)
    return m
for _n in ('atan2f', 'fmodf', 'powf', 'fminf', 'fmaxf', 'copysignf'):
    EXT[_n] = _libm2(_n)
@ext('nanf')
def _nanf(p): return math.nan
_libmd = {}
for _n in ('floor', 'ceil', 'round', 'sqrt', 'fabs', 'log', 'log10', 'exp', 'sin', 'cos', 'trunc'):
    def _mk(n):
        f = getattr(rt._libm, n); f.restype = ctypes.c_double; f.argtypes = [ctypes.c_double]
        def m(x):
            if x.__class__ is SF:
                if n in ('sqrt', 'floor', 'ceil', 'round', 'trunc', 'fabs'): return rt.fround(n, x, 64)
                return rt.sym_contract(n, 64, [x])
            return f(x)
        return m
    EXT[_n] = _mk(_n)
@ext('pow')
def _pow(a, b):
    if a.__class__ is SF or b.__class__ is SF: return rt.sym_contract('pow', 64, [a, b])
    f = rt._libm.pow; f.restype = ctypes.c_double; f.argtypes = [ctypes.c_double, ctypes.c_double]
    return f(a, b)

# ------------------------------------------------------------------ C++ runtime support
@ext('__cxa_atexit')
def _atexit(fn, arg, dso): return 0
@ext('__cxa_guard_acquire')
def _guard_acquire(g):
    return 0 if ld(g, 1) & 1 else 1
@ext('__cxa_guard_release')
def _guard_release(g): st(g, 1, 1)
@ext('__cxa_guard_abort')
def _guard_abort(g): pass
@ext('__cxa_pure_virtual')
def _pure(): raise Fault(rt.record_violation('abort', 'pure virtual function called'))
@ext('__cxa_allocate_exception')
def _alloc_exc(n): return rt.new_obj(max(n, 8), 'exception')
@ext('__cxa_free_exception')
def _free_exc(p): rt.OBJ.pop(p >> 32, None)
@ext('__cxa_throw')
def _throw(p, ti, dtor):
    e = CxxThrow(p, ti, dtor); rt.EXC_LIVE[p] = e
    rt.PS.nthrow = getattr(rt.PS, 'nthrow', 0) + 1
    raise e
CAUGHT = []
@ext('__cxa_begin_catch')
def _begin_catch(p):
    e = rt.EXC_LIVE.get(p)
    CAUGHT.append(e)
    return p
@ext('__cxa_end_catch')
def _end_catch():
    e = CAUGHT.pop()
    if e is not None and not getattr(e, 'rethrown', False):
        rt.EXC_LIVE.pop(e.ptr, None)
        if e.dtor:
            f = rt.FN.get(e.dtor)
            if f is not None:
                try: f(e.ptr)
                except Unmodeled: pass
        rt.OBJ.pop(e.ptr >> 32, None)
    elif e is not None:
        e.rethrown = False
@ext('__cxa_rethrow')
def _rethrow():
    e = CAUGHT[-1]; e.rethrown = True
    raise e
@ext('_ZSt18uncaught_exceptionv')
def _uncaught(): return 0
@ext('__cxa_get_exception_ptr')
def _get_exc_ptr(p): return p
@ext('__cxa_bad_cast')
def _bad_cast(): throw_std('St8bad_cast', b'std::bad_cast')
@ext('__cxa_bad_typeid')
def _bad_typeid(): throw_std('St10bad_typeid', b'std::bad_typeid')

# ---- standard exception types thrown from inside libstdc++.so: fake type_info objects + what()
STD_EXC = {
    'St9exception': [], 'St11logic_error': ['St9exception'], 'St13runtime_error': ['St9exception'],
    'St12out_of_range': ['St11logic_error'], 'St16invalid_argument': ['St11logic_error'], 'St12length_error': ['St11logic_error'],
    'St12domain_error': ['St11logic_error'], 'St9bad_alloc': ['St9exception'], 'St20bad_array_new_length': ['St9bad_alloc'],
    'St8bad_cast': ['St9exception'], 'St10bad_typeid': ['St9exception'], 'St17bad_function_call': ['St9exception'],
    'St12bad_weak_ptr': ['St9exception'], 'St14overflow_error': ['St13runtime_error'], 'St11range_error': ['St13runtime_error'],
    'St15underflow_error': ['St13runtime_error'], 'NSt8ios_base7failureB5cxx11E': ['St12system_error'], 'St12system_error': ['St13runtime_error'],
    'St18bad_variant_access': ['St9exception'], 'St19bad_optional_access': ['St9exception'], 'NSt10filesystem7__cxx1116filesystem_errorE': ['St12system_error'],
}
STD_TI = {}   # name -> typeinfo address
def std_typeinfo(name, globals_=None):
    if name in STD_TI: return STD_TI[name]
    a = None
    if globals_ is not None: a = globals_.get('_ZTI' + name)
    if a is None: a = rt.new_obj(24, 'global', '_ZTI' + name)
    STD_TI[name] = a
    rt.TI_BASES[a] = [std_typeinfo(b, globals_) for b in STD_EXC.get(name, [])]
    return a
_what_vtables = {}
def throw_std(name, msg):
    """throw a libstdc++ exception object: [vtable ptr][char* what]"""
    p = rt.new_obj(32, 'exception')
    m = rt.make_bytes(msg + b'\0', 'heap', 'what()')
    st(p, 8, _std_exc_vtable()); st(p + 8, 8, m)
    _throw(p, std_typeinfo(name, rt.MODULE_GLOBALS[0]), 0)
def _std_exc_vtable():
    if 'vt' not in _what_vtables:
        # vtable layout: [offset-to-top][typeinfo][dtor1][dtor0][what]
        vt = rt.new_obj(40, 'global', 'vtable for std exception (model)')
        fa = 0x7F000000 << 32
        rt.FN[fa] = lambda this: None
        rt.FN[fa + 1] = lambda this: ld(this + 8, 8)
        st(vt + 16, 8, fa); st(vt + 24, 8, fa); st(vt + 32, 8, fa + 1)
        _what_vtables['vt'] = vt + 16
    return _what_vtables['vt']
@ext('_ZSt20__throw_length_errorPKc')
def _t_len(m): throw_std('St12length_error', rt.cstr(m))
@ext('_ZSt19__throw_logic_errorPKc')
def _t_logic(m): throw_std('St11logic_error', rt.cstr(m))
@ext('_ZSt20__throw_out_of_rangePKc')
def _t_oor(m): throw_std('St12out_of_range', rt.cstr(m))
@ext('_ZSt24__throw_out_of_range_fmtPKcz')
def _t_oorf(m, *va): throw_std('St12out_of_range', rt.cstr(m))
@ext('_ZSt24__throw_invalid_argumentPKc')
def _t_inv(m): throw_std('St16invalid_argument', rt.cstr(m))
@ext('_ZSt17__throw_bad_allocv')
def _t_ba(): throw_std('St9bad_alloc', b'std::bad_alloc')
@ext('_ZSt28__throw_bad_array_new_lengthv')
def _t_banl(): throw_std('St20bad_array_new_length', b'std::bad_array_new_length')
@ext('_ZSt16__throw_bad_castv')
def _t_bc(): throw_std('St8bad_cast', b'std::bad_cast')
@ext('_ZSt25__throw_bad_function_callv')
def _t_bfc(): throw_std('St17bad_function_call', b'bad_function_call')
@ext('_ZSt19__throw_ios_failurePKc')
def _t_ios(m): throw_std('NSt8ios_base7failureB5cxx11E', rt.cstr(m))
@ext('_ZSt21__throw_runtime_errorPKc')
def _t_rt(m): throw_std('St13runtime_error', rt.cstr(m))
@ext('_ZSt20__throw_domain_errorPKc')
def _t_dom(m): throw_std('St12domain_error', rt.cstr(m))
@ext('_ZSt20__throw_system_errori')
def _t_sys(i): throw_std('St12system_error', b'system_error')
@ext('_ZSt21__glibcxx_assert_failPKciS0_S0_')
def _glibcxx_assert(file, line, func, cond):
    raise Fault(rt.record_violation('abort', 'libstdc++ assertion failed: ' + rt.cstr(cond).decode()))
@ext('_ZNSt9exceptionD2Ev', '_ZNSt9exceptionD1Ev', '_ZNSt13runtime_errorD2Ev', '_ZNSt13runtime_errorD1Ev', '_ZNSt11logic_errorD2Ev', '_ZNSt12bad_weak_ptrD1Ev', '_ZNSt12bad_weak_ptrD2Ev', '_ZNSt12bad_weak_ptrD0Ev')
def _exc_dtor(this): pass
@ext('_ZNKSt9exception4whatEv')
def _exc_what(this): return rt.make_bytes(b'std::exception\0', 'heap')
@ext('_ZNSt13runtime_errorC1ERKNSt7__cxx1112basic_stringIcSt11char_traitsIcESaIcEEE', '_ZNSt13runtime_errorC2ERKNSt7__cxx1112basic_stringIcSt11char_traitsIcESaIcEEE')
def _rterr_ctor(this, sp):
    n = ld(sp + 8, 8); d = ld(sp, 8)
    m = rt.make_bytes(rt.read_bytes(d, n) + b'\0', 'heap', 'what()')
    st(this, 8, _std_exc_vtable()); st(this + 8, 8, m)
@ext('_ZNKSt13runtime_error4whatEv', '_ZNKSt11logic_error4whatEv')
def _rterr_what(this): return ld(this + 8, 8)

# ---- dynamic_cast over the real type_info objects (single and multiple inheritance at offset 0 / vmi offsets)
@ext('__dynamic_cast')
def _dyncast(p, src_ti, dst_ti, hint):
    if p == 0: return 0
    vt = ld(p, 8)
    off_to_top = ld(vt - 16, 8); ti = ld(vt - 8, 8)
    if off_to_top >> 63: off_to_top -= 1 << 64
    most = (p + off_to_top) & M64
    r = _find_base(ti, dst_ti, most)
    return r if r is not None else 0
def _find_base(ti, dst, addr):
    if ti == dst: return addr
    o = rt.OBJ.get(ti >> 32)
    if o is None: return None
    vt = ld(ti, 8)
    if vt in rt.TI_SI_VTABLE[0] and o.size >= 24:
        return _find_base(ld(ti + 16, 8), dst, addr)
    if vt in rt.TI_SI_VTABLE[2] and o.size >= 24:
        n = ld(ti + 20, 4)
        for i in range(n):
            b = ld(ti + 24 + 16 * i, 8); fl = ld(ti + 32 + 16 * i, 8)
            off = fl >> 8
            if fl & 1: raise Unmodeled('dynamic_cast through virtual base')
            r = _find_base(b, dst, (addr + off) & M64)
            if r is not None: return r
    return None

# ------------------------------------------------------------------ libstdc++ non-template pieces
@ext('_ZSt11_Hash_bytesPKvmm')
def _hash_bytes(p, n, seed):
    """murmur-style hash: the real algorithm of libstdc++ (hash_bytes.cc, 64-bit), on concrete bytes"""
    if n.__class__ is S: n = rt.concretize(n)
    if seed.__class__ is S: seed = rt.concretize(seed)
    vals = rt.read_vals(p, n) if n <= 16 else None
    if vals is not None and rt.HOOKS.get('hash_enumerate', True):
        # a key byte with a small feasible domain (a character class of the scanner) is enumerated: every distinct key is its own path with its
        # real hash; only bytes that stay widely symbolic go through the uninterpreted function below
        vals = [rt.enumerate_small(v, 32) if v.__class__ is S else v for v in vals]
    if vals is not None and any(v.__class__ is S for v in vals):
        # symbolic bytes: an uninterpreted function of (bytes, seed) per length -- all the callers rely on is that equal inputs hash equally
        bv = z3.Concat(*[(v.e if v.__class__ is S else z3.BitVecVal(v, 8)) for v in reversed(vals)]) if n > 1 else (vals[0].e)
        f = z3.Function('hash_bytes_%d' % n, z3.BitVecSort(8 * n), z3.BitVecSort(64), z3.BitVecSort(64))
        return S(f(bv, z3.BitVecVal(seed, 64)), 64)
    data = bytes(vals) if vals is not None else rt.read_bytes(p, n)
    mul = (0xc6a4a793 << 32) + 0x5bd1e995
    def shift_mix(v): return v ^ (v >> 47)
    h = (seed ^ (n * mul)) & M64
    nb = n & ~7
    for i in range(0, nb, 8):
        d = (shift_mix((int.from_bytes(data[i:i + 8], 'little') * mul) & M64) * mul) & M64
        h ^= d; h = (h * mul) & M64
    if n & 7:
        d = int.from_bytes(data[nb:n], 'little')
        h ^= d; h = (h * mul) & M64
    h = (shift_mix(h) * mul) & M64
    return shift_mix(h)

_PRIMES = None
def _primes():
    global _PRIMES
    if _PRIMES is None:
        # libstdc++'s __prime_list (256 + 48 entries); generated: the table is "next prime" spaced ~ geometric. We reproduce
        # behaviour by reading the table from the shared library itself.
        lib = ctypes.CDLL('libstdc++.so.6')
        arr = (ctypes.c_ulong * 305).in_dll(lib, '_ZNSt8__detail12__prime_listE')
        _PRIMES = list(arr)
    return _PRIMES
import bisect
@ext('_ZNKSt8__detail20_Prime_rehash_policy14_M_need_rehashEmmm')
def _need_rehash(sret_or_this, *a):
    # returns std::pair<bool, size_t> in registers {i8/i1, i64}; signature (this, n_bkt, n_elt, n_ins)
    this, n_bkt, n_elt, n_ins = sret_or_this, a[0], a[1], a[2]
    next_resize = ld(this + 8, 8)
    if n_elt + n_ins > next_resize:
        mlf = rt.ldf32(this)
        min_bkts = (n_elt + n_ins) / mlf
        if min_bkts >= n_bkt:
            nb = _next_bkt(this, max(int(math.floor(min_bkts)) + 1, n_bkt * 2))
            return [1, nb]
        st(this + 8, 8, int(math.floor(n_bkt * mlf)))
        return [0, 0]
    return [0, 0]
@ext('_ZNKSt8__detail20_Prime_rehash_policy11_M_next_bktEm')
def _next_bkt(this, n):
    fast = [2, 2, 2, 3, 5, 5, 7, 7, 11, 11, 11, 11, 13, 13]
    mlf = rt.ldf32(this)
    if n < len(fast):
        if n == 0: return 1
        st(this + 8, 8, int(math.floor(fast[n] * mlf)))
        return fast[n]
    pr = _primes()
    lst = pr[6:6 + 256 + 48 - 6 - 1] if False else pr
    i = bisect.bisect_left(pr, n, 6, len(pr) - 1)
    v = pr[i]
    st(this + 8, 8, int(math.floor(v * mlf)) if i != len(pr) - 1 else M64)
    return v

@ext('_ZNSt6chrono3_V212system_clock3nowEv')
def _clock_now():
    h = rt.HOOKS.get('clock')
    if h is not None: return h()
    rt.PS.nclock = getattr(rt.PS, 'nclock', 0) + 1
    return (1_700_000_000_000_000_000 + rt.PS.nclock * 1000) & M64
@ext('_ZNSt6chrono3_V212steady_clock3nowEv')
def _steady_now(): return _clock_now()

# ---- iostreams: base-class pieces living in libstdc++.so. Streams run their real (IR) template code on top.
IOS_FLAGS_OFF = 24; IOS_PREC_OFF = 8; IOS_WIDTH_OFF = 16
@ext('_ZNSt8ios_baseC2Ev', '_ZNSt8ios_baseC1Ev')
def _ios_base_ctor(this):
    o = rt.OBJ[this >> 32]; off = this & 0xFFFFFFFF
    # zero the ios_base subobject (216 bytes) then set defaults the real ctor sets
    n = min(216, o.size - off)
    rt.memset(this, 0, n)
    st(this + 8, 8, 6); st(this + 16, 8, 0); st(this + 24, 4, 0x1002)   # precision 6, width 0, skipws|dec
    st(this + 192, 4, 8); st(this + 200, 8, this + 64)                   # _M_word_size, _M_word = _M_local_word
@ext('_ZNSt8ios_base7_M_initEv')
def _ios_base_init(this):
    st(this + 8, 8, 6); st(this + 16, 8, 0); st(this + 24, 4, 0x1002)
@ext('_ZNSt8ios_baseD2Ev', '_ZNSt8ios_baseD1Ev', '_ZNSt8ios_baseD0Ev')
def _ios_base_dtor(this): pass
@ext('_ZNSt8ios_base4InitC1Ev', '_ZNSt8ios_base4InitD1Ev', '_ZNSt8ios_base4InitC2Ev', '_ZNSt8ios_base4InitD2Ev')
def _ios_init(this): pass
@ext('_ZNSt6localeC1Ev', '_ZNSt6localeC2Ev')
def _locale_ctor(this): st(this, 8, 0)
@ext('_ZNSt6localeC1ERKS_', '_ZNSt6localeC2ERKS_')
def _locale_cctor(this, o): st(this, 8, ld(o, 8))
@ext('_ZNSt6localeD1Ev', '_ZNSt6localeD2Ev')
def _locale_dtor(this): pass
@ext('_ZNSt6localeaSERKS_')
def _locale_assign(this, o): st(this, 8, ld(o, 8)); return this
@ext('_ZNSt6locale7classicEv')
def _locale_classic():
    if 'classic' not in _what_vtables: _what_vtables['classic'] = rt.new_obj(8, 'global', 'locale::classic')
    return _what_vtables['classic']

# ---- iostream facets: a faithful classic-"C" ctype<char> object, and number formatting through libc
_facets = {}
def _fake_ctype():
    if 'ctype' in _facets: return _facets['ctype']
    _libc.__ctype_b_loc.restype = ctypes.POINTER(ctypes.POINTER(ctypes.c_ushort))
    tab = _libc.__ctype_b_loc()[0]
    tb = rt.new_obj(2 * 384, 'global', 'ctype classic table')
    for i in range(-128, 256): st(tb + 2 * (i + 128), 2, tab[i])
    c = rt.new_obj(576, 'global', 'ctype<char> (classic, model)')
    st(c + 48, 8, tb + 256)              # _M_table -> entry 0
    st(c + 56, 1, 1)                      # _M_widen_ok
    for i in range(256): st(c + 57 + i, 1, i); st(c + 313 + i, 1, i)
    st(c + 569, 1, 1)                     # _M_narrow_ok
    _facets['ctype'] = c
    _facets['num'] = rt.new_obj(16, 'global', 'num_put/num_get facet (model)')
    return c
def _cache_locale(this, loc):
    st(this + 240, 8, _fake_ctype()); st(this + 248, 8, _facets['num']); st(this + 256, 8, _facets['num'])
rt.OVERRIDE['_ZNSt9basic_iosIcSt11char_traitsIcEE15_M_cache_localeERKSt6locale'] = _cache_locale
EXT['_ZNSt9basic_iosIcSt11char_traitsIcEE15_M_cache_localeERKSt6locale'] = _cache_locale
@ext('_ZNKSt5ctypeIcE13_M_widen_initEv')
def _widen_init(this): st(this + 56, 1, 1)

def _ios_of(os_):
    vt = ld(os_, 8)
    off = ld(vt - 24, 8)
    return (os_ + off) & M64
def _ostream_write(os_, data):
    f = rt.find_fn('_ZSt16__ostream_insertIcSt11char_traitsIcEERSt13basic_ostreamIT_T0_ES6_PKS3_l')
    buf = rt.make_bytes(data, 'heap', 'formatted number')
    try: f(os_, buf, len(data))
    finally: rt.OBJ.pop(buf >> 32, None)
    return os_
def _fmt_flags(ios):
    fl = ld(ios + 24, 4); prec = ld(ios + 8, 8)
    if prec >> 63: prec -= 1 << 64
    return fl, prec
# fmtflags bits (libstdc++): boolalpha 1, dec 2, fixed 4, hex 8, internal 16, left 32, oct 64, right 128, scientific 256, showbase 512, showpoint 1024, showpos 2048, skipws 4096, unitbuf 8192, uppercase 16384
def _insert_double(os_, v):
    if rt.is_sym(v): v = rt.sym_float_value(v, 'ostream << symbolic floating-point value')
    fl, prec = _fmt_flags(_ios_of(os_))
    spec = b'%'
    if fl & 2048: spec += b'+'
    if fl & 1024: spec += b'#'
    ff = fl & (4 | 256)
    up = fl & 16384
    if ff == 4: conv = b'F' if up else b'f'
    elif ff == 256: conv = b'E' if up else b'e'
    elif ff == (4 | 256): conv = b'A' if up else b'a'
    else: conv = b'G' if up else b'g'
    if ff != (4 | 256): spec += b'.%d' % max(prec, 0)
    spec += conv
    return _ostream_write(os_, c_format(spec, [v]))
def _insert_int(signed):
    def m(os_, v):
        if rt.is_sym(v): v = rt.concretize(v)
        fl, prec = _fmt_flags(_ios_of(os_))
        base = fl & (2 | 8 | 64)
        if signed and v >> 63: v -= 1 << 64
        if base == 8: s_ = ('%X' if fl & 16384 else '%x') % (v & M64); s_ = (('0X' if fl & 16384 else '0x') + s_) if (fl & 512 and v) else s_
        elif base == 64: s_ = '%o' % (v & M64); s_ = ('0' + s_) if (fl & 512 and v) else s_
        else:
            s_ = '%d' % v
            if fl & 2048 and signed and v >= 0: s_ = '+' + s_
        return _ostream_write(os_, s_.encode())
    return m
def _insert_ptr(os_, v): return _ostream_write(os_, b'0x%x' % v if v else b'0')
def _insert_bool(os_, v):
    fl, prec = _fmt_flags(_ios_of(os_))
    if rt.is_sym(v): v = rt.concretize(v)
    if fl & 1: return _ostream_write(os_, b'true' if v else b'false')
    return _ostream_write(os_, b'1' if v else b'0')
for _n, _f in (('_ZNSo9_M_insertIdEERSoT_', _insert_double), ('_ZNSo9_M_insertIeEERSoT_', _insert_double), ('_ZNSo9_M_insertIlEERSoT_', _insert_int(True)), ('_ZNSo9_M_insertImEERSoT_', _insert_int(False)),
               ('_ZNSo9_M_insertIxEERSoT_', _insert_int(True)), ('_ZNSo9_M_insertIyEERSoT_', _insert_int(False)), ('_ZNSo9_M_insertIPKvEERSoT_', _insert_ptr), ('_ZNSo9_M_insertIbEERSoT_', _insert_bool)):
    rt.OVERRIDE[_n] = _f; EXT[_n] = _f

# ---- std::getline(istream&, string&, char): explicit specialization living in libstdc++.so; modelled over the stream buffer's get area
def _sb_getc(sb, bump=True):
    cur = ld(sb + 16, 8); end = ld(sb + 24, 8)
    if cur < end:
        c = ld(cur, 1)
        if bump: st(sb + 16, 8, cur + 1)
        return c
    vt = ld(sb, 8)
    f = rt.FN.get(ld(vt + (10 if bump else 9) * 8, 8))     # uflow / underflow
    r = f(sb)
    r &= 0xFFFFFFFF
    return -1 if r == 0xFFFFFFFF else (r & 0xFF)
def _str_assign(sp, data):
    """assign bytes / list of byte values to a std::string object (libstdc++ cxx11 ABI layout: {char* p; size_t len; union{char local[16]; size_t cap}})"""
    n = len(data)
    old = ld(sp, 8)
    if old != sp + 16 and old in [o << 32 for o in ()]: pass
    if n <= 15:
        if old != sp + 16 and (old >> 32) in rt.OBJ and rt.OBJ[old >> 32].kind == 'heap': rt.free(old)
        dst = sp + 16; st(sp, 8, dst)
    else:
        cap = ld(sp + 16, 8) if old != sp + 16 else 15
        if old == sp + 16 or cap < n:
            if old != sp + 16 and (old >> 32) in rt.OBJ and rt.OBJ[old >> 32].kind == 'heap': rt.free(old)
            dst = rt.malloc(n + 1); st(sp, 8, dst); st(sp + 16, 8, n)
        else: dst = old
    for i, c in enumerate(data): st(dst + i, 1, c)
    st(dst + n, 1, 0); st(sp + 8, 8, n)
@ext('_ZSt7getlineIcSt11char_traitsIcESaIcEERSt13basic_istreamIT_T0_ES7_RNSt7__cxx1112basic_stringIS4_S5_T1_EES4_')
def _getline(is_, sp, delim):
    ios = _ios_of(is_)
    state = ld(ios + 32, 4)
    delim &= 0xFF
    if state != 0:                      # sentry fails on a stream that is not good()
        st(ios + 32, 4, state | 4); return is_
    sb = ld(ios + 232, 8)
    out = []; extracted = 0; eof = False
    while True:
        c = _sb_getc(sb)
        if c.__class__ is not S and c == -1: eof = True; break
        extracted += 1
        if c == delim: break
        out.append(c)
    _str_assign(sp, out)
    ns = state
    if eof: ns |= 2
    if extracted == 0: ns |= 4
    st(ios + 32, 4, ns)
    return is_
