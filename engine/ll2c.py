#!/usr/bin/env python3
"""ll2c: translate LLVM-14 textual IR (typed pointers) into C that CBMC's C front end accepts.
Feasibility probe for /verif/DESIGN.md. Not complete; handles what clang++ -O1 emits for the probed kernels.
"""
import re, sys, struct, hashlib

# ---------------------------------------------------------------- tokenizer
TOK = re.compile(r'''
   (?P<ws>\s+)
 | (?P<comment>;[^\n]*)
 | (?P<cstr>c"(?:[^"\\]|\\[0-9A-Fa-f]{2}|\\\\)*")
 | (?P<lq>%"(?:[^"\\]|\\.)*")
 | (?P<gq>@"(?:[^"\\]|\\.)*")
 | (?P<comdat>\$[-a-zA-Z$._0-9]+|\$"(?:[^"\\]|\\.)*")
 | (?P<local>%[-a-zA-Z$._0-9]+)
 | (?P<glob>@[-a-zA-Z$._0-9]+)
 | (?P<meta>![-a-zA-Z$._0-9]*(?:\([^)]*\))?)
 | (?P<attrg>\#[0-9]+)
 | (?P<str>"(?:[^"\\]|\\.)*")
 | (?P<hexf>0x[KLMHR]?[0-9A-Fa-f]+)
 | (?P<num>-?[0-9]+\.[0-9]*(?:[eE][-+]?[0-9]+)?|-?[0-9]+)
 | (?P<dots>\.\.\.)
 | (?P<word>[a-zA-Z_][a-zA-Z0-9_.]*)
 | (?P<punct>[=,()\[\]{}<>*:|])
''', re.X)

def tokenize(s):
    out = []; pos = 0
    while pos < len(s):
        m = TOK.match(s, pos)
        if not m: raise SyntaxError("tok: %r" % s[pos:pos+60])
        pos = m.end()
        k = m.lastgroup
        if k in ('ws', 'comment'): continue
        out.append((k, m.group(k)))
    return out

# ---------------------------------------------------------------- types
class Ty:
    def __init__(s, k, **kw): s.k = k; s.__dict__.update(kw)
    def __repr__(s): return tyname(s)
VOID = Ty('void'); LABEL = Ty('label'); METADATA = Ty('metadata')
_int = {}
def IntT(n):
    if n not in _int: _int[n] = Ty('int', n=n)
    return _int[n]
FLOAT = Ty('float'); DOUBLE = Ty('double'); X86FP80 = Ty('x86_fp80')
def PtrT(e): return Ty('ptr', e=e)
def san(name):
    return re.sub(r'[^A-Za-z0-9_]', lambda m: '_' if m.group(0) in '.:< >,*&-' else 'x%02x' % ord(m.group(0)), name)

def tyname(t):
    k = t.k
    if k == 'int': return 'i%d' % t.n
    if k == 'float': return 'f32'
    if k == 'double': return 'f64'
    if k == 'x86_fp80': return 'f80'
    if k == 'void': return 'void'
    if k == 'ptr':
        if t.e.k == 'void': return 'p_i8'
        return 'p_' + tyname(t.e)
    if k == 'named': return 'S_' + san(t.name)
    if k == 'array': return 'a%d_%s' % (t.n, tyname(t.e))
    if k == 'vector': return 'v%d_%s' % (t.n, tyname(t.e))
    if k == 'struct':
        body = ('P' if t.packed else '') + '_'.join(tyname(e) for e in t.elems)
        return 'L_' + hashlib.md5(body.encode()).hexdigest()[:10]
    if k == 'func':
        body = tyname(t.ret) + '__' + '_'.join(tyname(p) for p in t.params) + ('_va' if t.va else '')
        return 'F_' + hashlib.md5(body.encode()).hexdigest()[:10]
    if k in ('label', 'metadata'): return k
    raise ValueError(k)

PARAM_ATTRS = set('''noundef nonnull nocapture readonly writeonly readnone noalias signext zeroext immarg returned inreg nest
 nofree swiftself swifterror noreturn nounwind inalloca'''.split())
PARAM_ATTRS_ARG = set('align dereferenceable dereferenceable_or_null sret byval byref preallocated elementtype'.split())

class P:
    """token stream parser"""
    def __init__(s, toks, mod): s.t = toks; s.i = 0; s.mod = mod
    def peek(s, o=0): return s.t[s.i+o] if s.i+o < len(s.t) else ('eof', '')
    def next(s): r = s.peek(); s.i += 1; return r
    def accept(s, v):
        if s.peek()[1] == v: s.i += 1; return True
        return False
    def expect(s, v):
        if not s.accept(v): raise SyntaxError("expected %r got %r in %s" % (v, s.peek(), ' '.join(x[1] for x in s.t[:40])))
    def eof(s): return s.i >= len(s.t)

    def type(s):
        k, v = s.next()
        if k == 'word':
            if re.fullmatch(r'i[0-9]+', v): t = IntT(int(v[1:]))
            elif v == 'void': t = VOID
            elif v == 'float': t = FLOAT
            elif v == 'double': t = DOUBLE
            elif v == 'x86_fp80': t = X86FP80
            elif v == 'label': t = LABEL
            elif v == 'metadata': t = METADATA
            elif v == 'opaque': t = Ty('opaque')
            elif v == 'ptr': t = PtrT(IntT(8))
            else: raise SyntaxError("type word " + v)
        elif k in ('local', 'lq'):
            name = v[1:]
            if name.startswith('"'): name = name[1:-1]
            t = Ty('named', name=name)
        elif v == '{':
            elems = []
            if not s.accept('}'):
                while True:
                    elems.append(s.type())
                    if s.accept('}'): break
                    s.expect(',')
            t = Ty('struct', elems=elems, packed=False)
        elif v == '<':
            if s.peek()[1] == '{':
                s.next(); elems = []
                if not s.accept('}'):
                    while True:
                        elems.append(s.type())
                        if s.accept('}'): break
                        s.expect(',')
                s.expect('>')
                t = Ty('struct', elems=elems, packed=True)
            else:
                n = int(s.next()[1]); s.expect('x'); e = s.type(); s.expect('>')
                t = Ty('vector', n=n, e=e)
        elif v == '[':
            n = int(s.next()[1]); s.expect('x'); e = s.type(); s.expect(']')
            t = Ty('array', n=n, e=e)
        else:
            raise SyntaxError("type? %r %r" % (k, v))
        while True:
            if s.accept('*'): t = PtrT(t)
            elif s.peek()[1] == '(' and s.peek()[0] == 'punct':
                s.next(); params = []; va = False
                if not s.accept(')'):
                    while True:
                        if s.accept('...'): va = True
                        else:
                            params.append(s.type()); s.skip_attrs()
                        if s.accept(')'): break
                        s.expect(',')
                t = Ty('func', ret=t, params=params, va=va)
            elif s.peek()[1] == 'addrspace': s.next(); s.expect('('); s.next(); s.expect(')')
            else: break
        return t

    def skip_attrs(s):
        attrs = {}
        while True:
            k, v = s.peek()
            if k == 'word' and v in PARAM_ATTRS: s.next(); attrs[v] = True
            elif k == 'word' and v in PARAM_ATTRS_ARG:
                s.next()
                if s.accept('('):
                    if v in ('sret', 'byval', 'byref', 'preallocated', 'elementtype', 'inalloca'):
                        attrs[v] = s.type()
                    else:
                        attrs[v] = s.next()[1]
                    s.expect(')')
                else:
                    attrs[v] = s.next()[1]
            elif k == 'attrg': s.next()
            else: break
        return attrs

    # ---- values: returns ('kind', ...) tuples
    def value(s, ty):
        k, v = s.next()
        if k in ('local', 'lq'):
            n = v[1:]; n = n[1:-1] if n.startswith('"') else n
            return ('local', n)
        if k in ('glob', 'gq'):
            n = v[1:]; n = n[1:-1] if n.startswith('"') else n
            return ('global', n)
        if k == 'num':
            if ty.k in ('float', 'double', 'x86_fp80'): return ('fp', float(v))
            return ('int', int(v))
        if k == 'hexf':
            if ty.k in ('float', 'double'):
                return ('fp', struct.unpack('>d', bytes.fromhex(v[2:].rjust(16, '0')))[0])
            raise SyntaxError("hex float kind " + v)
        if k == 'cstr':
            raw = v[2:-1]; bs = []; i = 0
            while i < len(raw):
                if raw[i] == '\\':
                    if raw[i+1] == '\\': bs.append(92); i += 2
                    else: bs.append(int(raw[i+1:i+3], 16)); i += 3
                else: bs.append(ord(raw[i])); i += 1
            return ('bytes', bs)
        if k == 'word':
            if v in ('true', 'false'): return ('int', 1 if v == 'true' else 0)
            if v == 'null': return ('null',)
            if v in ('undef', 'poison'): return ('undef',)
            if v == 'zeroinitializer': return ('zero',)
            if v in ('getelementptr',):
                inb = s.accept('inbounds'); s.expect('(')
                sty = s.type(); s.expect(',')
                pty = s.type(); base = s.value(pty); idx = []
                while s.accept(','):
                    s.accept('inrange')
                    ity = s.type(); idx.append((ity, s.value(ity)))
                s.expect(')')
                return ('cgep', sty, pty, base, idx)
            if v in ('bitcast', 'inttoptr', 'ptrtoint', 'trunc', 'zext', 'sext', 'addrspacecast'):
                s.expect('('); fty = s.type(); val = s.value(fty); s.expect('to'); tty = s.type(); s.expect(')')
                return ('ccast', v, fty, val, tty)
            if v in ('add', 'sub', 'mul', 'and', 'or', 'xor', 'shl', 'lshr', 'ashr'):
                while s.peek()[1] in ('nsw', 'nuw', 'exact'): s.next()
                s.expect('('); aty = s.type(); a = s.value(aty); s.expect(','); bty = s.type(); b = s.value(bty); s.expect(')')
                return ('cbin', v, aty, a, b)
            if v == 'icmp':
                pred = s.next()[1]; s.expect('('); aty = s.type(); a = s.value(aty); s.expect(','); bty = s.type(); b = s.value(bty); s.expect(')')
                return ('cicmp', pred, aty, a, b)
            if v == 'select':
                s.expect('('); cty = s.type(); c = s.value(cty); s.expect(','); aty = s.type(); a = s.value(aty); s.expect(','); bty = s.type(); b = s.value(bty); s.expect(')')
                return ('cselect', c, aty, a, b)
            if v == 'blockaddress':
                raise SyntaxError("blockaddress")
            if v == 'dso_local_equivalent': return s.value(ty)
            raise SyntaxError("value word " + v)
        if v == '{' or (v == '<' and s.peek()[1] == '{'):
            packed = v == '<'
            if packed: s.next()
            elems = []
            if not s.accept('}'):
                while True:
                    ety = s.type(); elems.append((ety, s.value(ety)))
                    if s.accept('}'): break
                    s.expect(',')
            if packed: s.expect('>')
            return ('cstruct', elems)
        if v == '[' or v == '<':
            close = ']' if v == '[' else '>'
            elems = []
            if not s.accept(close):
                while True:
                    ety = s.type(); elems.append((ety, s.value(ety)))
                    if s.accept(close): break
                    s.expect(',')
            return ('carray', elems)
        raise SyntaxError("value? %r %r" % (k, v))

    def tyval(s):
        t = s.type(); return t, s.value(t)

# ---------------------------------------------------------------- module
class Func:
    def __init__(s): s.blocks = []; s.params = []; s.name = None; s.ret = None; s.va = False; s.defined = False; s.pattrs = []
class Module:
    def __init__(s): s.named = {}; s.globals = {}; s.funcs = {}; s.order = []

LINKAGE = set('''private internal available_externally linkonce weak common appending extern_weak linkonce_odr weak_odr external
 dso_local dso_preemptable default hidden protected dllimport dllexport unnamed_addr local_unnamed_addr thread_local
 externally_initialized fastcc ccc coldcc tailcc noundef signext zeroext nonnull noalias'''.split())

def logical_lines(text):
    # join multi-line constructs (switch [...] and global initialisers can't span lines except switch/landingpad)
    lines = text.split('\n'); i = 0
    while i < len(lines):
        l = lines[i]
        st = l.strip()
        if st.startswith('switch ') and st.endswith('['):
            j = i + 1
            while not lines[j].strip().startswith(']'): l += ' ' + lines[j].strip(); j += 1
            l += ' ]'; i = j
        elif i + 1 < len(lines) and lines[i + 1].lstrip().startswith('to label '):
            l += ' ' + lines[i + 1].strip(); i += 1
        elif ' landingpad ' in st or st.startswith('landingpad'):
            j = i + 1
            while j < len(lines) and re.match(r'\s+(catch|filter|cleanup)\b', lines[j]): l += ' ' + lines[j].strip(); j += 1
            i = j - 1
        yield l
        i += 1

def parse_module(text):
    mod = Module(); cur = None; blk = None
    for line in logical_lines(text):
        st = line.strip()
        if not st or st.startswith(';'): continue
        if cur is None:
            if st.startswith('source_filename') or st.startswith('target ') or st.startswith('attributes ') or st.startswith('!') or st.startswith('module asm'): continue
            if st.startswith('$'): continue  # comdat
            toks = tokenize(st); p = P(toks, mod)
            if toks[0][0] in ('local', 'lq') and toks[1][1] == '=' and toks[2][1] == 'type':
                name = toks[0][1][1:]; name = name[1:-1] if name.startswith('"') else name
                p.i = 3
                if p.peek()[1] == 'opaque': mod.named[name] = Ty('opaque')
                else: mod.named[name] = p.type()
                continue
            if toks[0][0] in ('glob', 'gq') and toks[1][1] == '=':
                name = toks[0][1][1:]; name = name[1:-1] if name.startswith('"') else name
                p.i = 2
                ext = False
                while p.peek()[0] == 'word' and (p.peek()[1] in LINKAGE):
                    if p.peek()[1] in ('external', 'extern_weak'): ext = True
                    if p.peek()[1] == 'thread_local' and p.peek(1)[1] == '(': p.next(); p.next(); p.next(); p.next(); continue
                    p.next()
                if p.peek()[1] == 'alias':
                    p.next(); aty = p.type(); p.expect(','); tty = p.type(); tgt = p.value(tty)
                    mod.globals[name] = dict(ty=aty, init=None, const=False, ext=False, alias=tgt); mod.order.append(('g', name)); continue
                kind = p.next()[1]  # global | constant
                ty = p.type(); init = None
                if not ext and not p.eof() and p.peek()[1] != ',':
                    init = p.value(ty)
                mod.globals[name] = dict(ty=ty, init=init, const=(kind == 'constant'), ext=ext); mod.order.append(('g', name))
                continue
            if toks[0][1] in ('declare', 'define'):
                f = Func(); f.defined = toks[0][1] == 'define'
                p.i = 1
                while p.peek()[0] == 'word' and p.peek()[1] in LINKAGE | PARAM_ATTRS: p.next()
                p.skip_attrs()
                f.ret = p.type()
                nm = p.next()[1][1:]; f.name = nm[1:-1] if nm.startswith('"') else nm
                p.expect('(')
                if not p.accept(')'):
                    while True:
                        if p.accept('...'): f.va = True
                        else:
                            pty = p.type(); attrs = p.skip_attrs()
                            pname = None
                            if p.peek()[0] in ('local', 'lq'):
                                pn = p.next()[1][1:]; pname = pn[1:-1] if pn.startswith('"') else pn
                            f.params.append((pty, pname)); f.pattrs.append(attrs)
                        if p.accept(')'): break
                        p.expect(',')
                mod.funcs[f.name] = f; mod.order.append(('f', f.name))
                if f.defined: cur = f; blk = None; f.nextnum = len([1 for _, n in f.params if n is None or n.isdigit()])
                continue
            raise SyntaxError("toplevel: " + st[:100])
        else:
            if st == '}': cur = None; continue
            m = re.match(r'^([-a-zA-Z$._0-9]+|"[^"]*"):', st)
            if m:
                n = m.group(1); n = n[1:-1] if n.startswith('"') else n
                blk = (n, []); cur.blocks.append(blk); continue
            if blk is None:
                # implicit entry label: number = count of unnamed params
                n = str(len([1 for _, nm in cur.params if nm is None or nm.isdigit()]))
                blk = (n, []); cur.blocks.append(blk)
            blk[1].append(tokenize(st))
    return mod

# ---------------------------------------------------------------- C emission
class Emit:
    def __init__(s, mod, stubbed=()):
        s.mod = mod; s.tydecl = []; s.tyseen = {}; s.out = []; s.stubbed = set(stubbed); s.structs_done = set(); s.struct_wait = []; s.stub_re = []; s.alloc_types = {}
        s.need_checks = True

    def res(s, t):
        while t.k == 'named': t = s.mod.named[t.name]
        return t

    def ct(s, t):
        """return C typedef name for t, emitting typedefs as needed"""
        if t.k == 'void': return 'void'
        n = tyname(t)
        if n in s.tyseen: return n
        s.tyseen[n] = t
        k = t.k
        if k == 'int':
            base = {1: '_Bool', 8: 'unsigned char', 16: 'unsigned short', 32: 'unsigned int', 64: 'unsigned long'}.get(t.n)
            if base is None: base = 'unsigned __CPROVER_bitvector[%d]' % t.n
            s.tydecl.append('typedef %s %s;' % (base, n))
        elif k == 'float': s.tydecl.append('typedef float f32;')
        elif k == 'double': s.tydecl.append('typedef double f64;')
        elif k == 'x86_fp80': s.tydecl.append('typedef long double f80;')
        elif k == 'ptr':
            e = t.e
            if e.k == 'void' or e.k == 'opaque': s.ct(IntT(8)); s.tydecl.append('typedef i8 *%s;' % n) if n != 'p_i8' or True else None
            elif e.k in ('named', 'struct'):
                r = s.res(e) if e.k == 'named' else e
                if r.k == 'opaque':
                    s.tydecl.append('struct %s; typedef struct %s *%s;' % (tyname(e), tyname(e), n))
                else:
                    s.tydecl.append('struct %s; typedef struct %s *%s;' % (tyname(e), tyname(e), n))
                    s.struct_wait.append(e)
            elif e.k == 'func':
                fn = s.ct(e); s.tydecl.append('typedef %s *%s;' % (fn, n))
            else:
                en = s.ct(e); s.tydecl.append('typedef %s *%s;' % (en, n))
        elif k in ('named', 'struct'):
            r = s.res(t)
            if r.k == 'opaque':
                s.tydecl.append('struct %s; typedef struct %s %s;' % (n, n, n))
            else:
                fields = []
                for i, e in enumerate(r.elems):
                    fields.append('%s f%d;' % (s.ct(e), i))
                if not fields: fields = ['char _empty;'] if False else []
                s.tydecl.append('struct %s%s { %s }; typedef struct %s %s;' % ('__attribute__((packed)) ' if r.packed else '', n, ' '.join(fields), n, n))
                s.structs_done.add(n)
        elif k == 'array':
            en = s.ct(t.e)
            # wrap arrays in struct so they are assignable/returnable as SSA values
            s.tydecl.append('typedef struct %s { %s a[%d]; } %s;' % (n, en, max(t.n, 1) if t.n == 0 else t.n, n))
        elif k == 'vector':
            en = s.ct(t.e)
            s.tydecl.append('typedef struct %s { %s a[%d]; } %s;' % (n, en, t.n, n))
        elif k == 'func':
            r = s.ct(t.ret); ps = [s.ct(p) for p in t.params]
            s.tydecl.append('typedef %s %s(%s);' % (r, n, ', '.join(ps) + (', ...' if t.va else '') if ps else ('void' if not t.va else '')))
        else:
            raise ValueError(k)
        return n

    def flush_structs(s):
        while s.struct_wait:
            e = s.struct_wait.pop()
            if tyname(e) not in s.structs_done: s.ct(e)

    # ---- names
    def gname(s, n):
        return san(n) if re.fullmatch(r'[A-Za-z_][A-Za-z0-9_]*', n) else 'g_' + san(n)
    def lname(s, n): return 'v_' + san(n)

    def intlit(s, t, v):
        n = t.n; v &= (1 << n) - 1
        if n == 1: return '1' if v else '0'
        if n <= 32: return '((%s)%dU)' % (s.ct(t), v)
        if n <= 64: return '((%s)%dUL)' % (s.ct(t), v)
        hi = v >> 64; lo = v & ((1 << 64) - 1)
        return '((((%s)%dUL) << 64) | ((%s)%dUL))' % (s.ct(t), hi, s.ct(t), lo)

    def fplit(s, t, v):
        if v != v: return '((%s)__builtin_nan(""))' % s.ct(t)
        if v in (float('inf'), float('-inf')): return '((%s)%s__builtin_inf())' % (s.ct(t), '-' if v < 0 else '')
        return '((%s)%s)' % (s.ct(t), float(v).hex())

    def val(s, t, v, static=False):
        k = v[0]; rt = s.res(t)
        if k == 'local': return s.lname(v[1])
        if k == 'global':
            g = s.gname(v[1])
            if v[1] in s.mod.funcs: return '(&%s)' % g
            return '(&%s)' % g
        if k == 'int': return s.intlit(rt, v[1])
        if k == 'fp': return s.fplit(rt, v[1])
        if k == 'null': return '((%s)0)' % s.ct(t)
        if k in ('undef', 'zero'):
            if rt.k in ('int',): return s.intlit(rt, 0)
            if rt.k in ('float', 'double', 'x86_fp80'): return '((%s)0)' % s.ct(t)
            if rt.k == 'ptr': return '((%s)0)' % s.ct(t)
            return '{0}' if static else '((%s){0})' % s.ct(t)
        if k == 'bytes':
            body = '{{' + ','.join(str(b) for b in v[1]) + '}}'
            return body if static else '((%s)%s)' % (s.ct(t), body)
        if k == 'cstruct':
            body = '{' + ', '.join(s.val(et, ev, True) for et, ev in v[1]) + '}'
            return body if static else '((%s)%s)' % (s.ct(t), body)
        if k == 'carray':
            body = '{{' + ', '.join(s.val(et, ev, True) for et, ev in v[1]) + '}}'
            return body if static else '((%s)%s)' % (s.ct(t), body)
        if k == 'cgep':
            _, sty, pty, base, idx = v
            return s.gep_expr(sty, pty, s.val(pty, base, static), [(it, s.val(it, iv, static)) for it, iv in idx])[0]
        if k == 'ccast':
            _, op, fty, val, tty = v
            return s.cast_expr(op, fty, s.val(fty, val, static), tty)
        if k == 'cbin':
            _, op, aty, a, b = v
            return s.bin_expr(op, aty, s.val(aty, a, static), s.val(aty, b, static), ())
        if k == 'cicmp':
            _, pred, aty, a, b = v
            return s.icmp_expr(pred, aty, s.val(aty, a, static), s.val(aty, b, static))
        if k == 'cselect':
            _, c, aty, a, b = v
            return '(%s ? %s : %s)' % (s.val(IntT(1), c, static), s.val(aty, a, static), s.val(aty, b, static))
        raise ValueError(v)

    def sidx(s, ity, e):
        r = s.res(ity)
        if r.n == 64: return '((long)%s)' % e
        if r.n == 32: return '((long)(int)%s)' % e
        if r.n == 16: return '((long)(short)%s)' % e
        if r.n == 8: return '((long)(signed char)%s)' % e
        return '((long)(signed __CPROVER_bitvector[%d])%s)' % (r.n, e)

    def gep_expr(s, sty, pty, base, idx):
        cur = sty
        expr = '(%s)[%s]' % (base, s.sidx(idx[0][0], idx[0][1]))
        for ity, ie in idx[1:]:
            r = s.res(cur)
            if r.k == 'struct':
                m = re.search(r'(\d+)U', ie); fi = int(m.group(1))
                expr += '.f%d' % fi; cur = r.elems[fi]
            elif r.k in ('array', 'vector'):
                expr += '.a[%s]' % s.sidx(ity, ie); cur = r.e
            else: raise ValueError("gep into " + r.k)
        s.ct(cur)
        return '(&%s)' % expr, PtrT(cur)

    def signed_ct(s, t):
        r = s.res(t)
        return {8: 'signed char', 16: 'short', 32: 'int', 64: 'long'}.get(r.n, 'signed __CPROVER_bitvector[%d]' % r.n)

    def cast_expr(s, op, fty, e, tty):
        f = s.res(fty); t = s.res(tty); tn = s.ct(tty)
        if op in ('bitcast', 'addrspacecast'):
            if f.k == 'ptr' and t.k == 'ptr': return '((%s)%s)' % (tn, e)
            if f.k == t.k: return e
            # scalar reinterpretation
            return '(*(%s*)&(%s){%s})' % (tn, s.ct(fty), e)
        if op in ('trunc', 'zext', 'inttoptr', 'ptrtoint', 'fptrunc', 'fpext', 'uitofp', 'fptoui'):
            if op == 'inttoptr': return '((%s)(unsigned long)%s)' % (tn, e)
            if op == 'ptrtoint': return '((%s)(unsigned long)%s)' % (tn, e)
            if op == 'zext' and f.n == 1: return '((%s)(%s ? 1 : 0))' % (tn, e)
            if op == 'trunc' and t.n == 1: return '((%s)((%s) & 1))' % (tn, e)
            return '((%s)%s)' % (tn, e)
        if op == 'sext':
            if f.n == 1: return '((%s)(%s ? -1 : 0))' % (tn, e)
            return '((%s)(%s)(%s)%s)' % (tn, s.signed_ct(tty), s.signed_ct(fty), e)
        if op == 'sitofp': return '((%s)(%s)%s)' % (tn, s.signed_ct(fty), e)
        if op == 'fptosi': return '((%s)(%s)%s)' % (tn, s.signed_ct(tty), e)
        raise ValueError(op)

    def bin_expr(s, op, ty, a, b, flags):
        t = s.res(ty); tn = s.ct(ty)
        if t.k in ('float', 'double', 'x86_fp80'):
            o = {'fadd': '+', 'fsub': '-', 'fmul': '*', 'fdiv': '/'}.get(op)
            if o: return '((%s)(%s %s %s))' % (tn, a, o, b)
            if op == 'frem': return '((%s)__builtin_fmod(%s, %s))' % (tn, a, b)
        sg = s.signed_ct(ty)
        o = {'add': '+', 'sub': '-', 'mul': '*', 'and': '&', 'or': '|', 'xor': '^', 'shl': '<<', 'lshr': '>>', 'udiv': '/', 'urem': '%'}.get(op)
        if t.n == 1 and op in ('and', 'or', 'xor', 'add', 'sub'):
            o2 = {'and': '&', 'or': '|', 'xor': '^', 'add': '^', 'sub': '^'}[op]
            return '((_Bool)((%s %s %s) & 1))' % (a, o2, b)
        if o: return '((%s)((%s)%s %s (%s)%s))' % (tn, tn, a, o, tn, b)
        if op == 'ashr': return '((%s)((%s)%s >> %s))' % (tn, sg, a, b)
        if op == 'sdiv': return '((%s)((%s)%s / (%s)%s))' % (tn, sg, a, sg, b)
        if op == 'srem': return '((%s)((%s)%s %% (%s)%s))' % (tn, sg, a, sg, b)
        raise ValueError(op)

    def icmp_expr(s, pred, ty, a, b):
        t = s.res(ty)
        o = {'eq': '==', 'ne': '!=', 'ugt': '>', 'uge': '>=', 'ult': '<', 'ule': '<=', 'sgt': '>', 'sge': '>=', 'slt': '<', 'sle': '<='}[pred]
        if t.k == 'ptr':
            if pred in ('eq', 'ne'): return '(%s %s %s)' % (a, o, b)
            return '((unsigned long)%s %s (unsigned long)%s)' % (a, o, b) if False else '(%s %s %s)' % (a, o, b)
        if pred[0] == 's':
            sg = s.signed_ct(ty); return '((%s)%s %s (%s)%s)' % (sg, a, o, sg, b)
        return '(%s %s %s)' % (a, o, b)

    def fcmp_expr(s, pred, a, b):
        m = {'oeq': '(%s == %s)', 'ogt': '(%s > %s)', 'oge': '(%s >= %s)', 'olt': '(%s < %s)', 'ole': '(%s <= %s)',
             'one': '(%s < %s || %s > %s)', 'ord': '(%s == %s && %s == %s)', 'uno': '(%s != %s || %s != %s)',
             'ueq': '(!(%s < %s || %s > %s))', 'ugt': '(!(%s <= %s))', 'uge': '(!(%s < %s))', 'ult': '(!(%s >= %s))', 'ule': '(!(%s > %s))', 'une': '(%s != %s)',
             'true': '1', 'false': '0'}[pred]
        if pred in ('one', 'ueq'): return m % (a, b, a, b)
        if pred in ('ord', 'uno'): return m % (a, a, b, b)
        if pred in ('true', 'false'): return m
        return m % (a, b)

    # ---- functions
    def proto(s, f):
        ps = ', '.join('%s %s' % (s.ct(t), s.lname(n) if n is not None else 'a%d' % i) for i, (t, n) in enumerate(f.params))
        if f.va: ps = ps + ', ...' if ps else '...'
        if not ps: ps = 'void'
        return '%s %s(%s)' % (s.ct(f.ret), s.gname(f.name), ps)

    def emit_func(s, f):
        body = []; decls = {}
        nunn = 0
        # number unnamed params
        params = []
        for i, (t, n) in enumerate(f.params):
            if n is None: n = str(nunn); nunn += 1
            elif n.isdigit(): nunn = int(n) + 1
            params.append((t, n))
        f.params = params
        types = {n: t for t, n in params}
        blocks = f.blocks
        # first pass: result types for phi resolution
        phis = {}  # block -> list of (dst, ty, [(val, pred)])
        insts = {}
        for bn, il in blocks:
            for toks in il:
                p = P(toks, s.mod)
                dst = None
                if p.peek(1)[1] == '=' and p.peek()[0] in ('local', 'lq'):
                    d = p.next()[1][1:]; dst = d[1:-1] if d.startswith('"') else d; p.next()
                insts.setdefault(bn, []).append((dst, p))
        # allocation typing: first bitcast of an operator-new result decides the element type
        news = set()
        for bn, il in blocks:
            for dst, p in insts.get(bn, []):
                txt = [t[1] for t in p.t]
                if dst is not None and ('@_Znwm' in txt or '@_Znam' in txt): news.add(dst)
        for bn, il in blocks:
            for dst, p in insts.get(bn, []):
                txt = [t[1] for t in p.t]
                if 'bitcast' in txt and len(txt) > 5 and txt[txt.index('bitcast') + 1] == 'i8' and txt[txt.index('bitcast') + 2] == '*':
                    src = txt[txt.index('bitcast') + 3]
                    if src.startswith('%') and src[1:] in news and (f.name, src[1:]) not in s.alloc_types:
                        q = P(p.t, s.mod); q.i = txt.index('to') + 1
                        T = q.type()
                        if T.k == 'ptr' and s.res(T.e).k != 'opaque' and not (T.e.k == 'int' and T.e.n == 8):
                            s.alloc_types[(f.name, src[1:])] = T.e
        s.bc = {}
        for bn, il in blocks:
            for dst, p in insts.get(bn, []):
                txt = [t[1] for t in p.t]
                if dst is not None and 'bitcast' in txt and txt[-2:] == ['i8', '*'] and 'to' in txt:
                    try:
                        q = P(p.t, s.mod); q.i = txt.index('bitcast') + 1
                        T = q.type(); k, v = q.next()
                        if k in ('local', 'lq') and T.k == 'ptr' and s.res(T.e).k in ('struct',) :
                            n = v[1:]; n = n[1:-1] if n.startswith('"') else n
                            s.bc[dst] = (n, T.e)
                    except SyntaxError: pass
        def L(n): return 'L_' + san(n)
        def setty(d, t):
            types[d] = t; decls[d] = t
        def edge(frm, to):
            """assignments for phis in block `to` when coming from `frm`"""
            ps = phis.get(to, [])
            if not ps: return ''
            out = []
            for i, (d, t, inc) in enumerate(ps):
                v = [val for val, pred in inc if pred == frm]
                if not v: raise ValueError("phi no incoming %s<-%s" % (to, frm))
                out.append('%s = %s;' % ('ph%d_%s' % (i, s.lname(d)), s.val(t, v[0])))
                decls['#ph%d_%s' % (i, d)] = t
            for i, (d, t, inc) in enumerate(ps):
                out.append('%s = %s;' % (s.lname(d), 'ph%d_%s' % (i, s.lname(d))))
            return ' '.join(out) + ' '
        # collect phis first
        for bn, il in blocks:
            for dst, p in insts.get(bn, []):
                if p.peek()[1] == 'phi':
                    save = p.i; p.next()
                    while p.peek()[1] in ('fast', 'nnan', 'ninf', 'nsz', 'arcp', 'contract', 'afn', 'reassoc'): p.next()
                    t = p.type(); inc = []
                    while True:
                        p.expect('['); v = p.value(t); p.expect(',')
                        pr = p.next()[1][1:]; pr = pr[1:-1] if pr.startswith('"') else pr
                        p.expect(']'); inc.append((v, pr))
                        if not p.accept(','): break
                        if p.peek()[0] == 'meta': break
                    phis.setdefault(bn, []).append((dst, t, inc)); setty(dst, t)
                    p.i = save
        for bn, il in blocks:
            body.append('%s: ;' % L(bn))
            for dst, p in insts.get(bn, []):
                op = p.next()[1]
                if op in ('tail', 'musttail', 'notail'): op = p.next()[1]
                if op == 'phi': continue
                line = s.emit_inst(f, bn, dst, op, p, setty, edge, L, types)
                if line: body.append('  ' + line)
        out = [s.proto(f) + ' {']
        for d, t in decls.items():
            if d.startswith('#'): out.append('  %s %s;' % (s.ct(t), d[1:].split('_', 1)[0] + '_' + s.lname(d[1:].split('_', 1)[1])))
            else: out.append('  %s %s;' % (s.ct(t), s.lname(d)))
        out += body; out.append('}')
        return '\n'.join(out)

    def emit_inst(s, f, bn, dst, op, p, setty, edge, L, types):
        D = s.lname(dst) if dst is not None else None
        def lab():
            p.expect('label'); n = p.next()[1][1:]; return n[1:-1] if n.startswith('"') else n
        if op == 'ret':
            t = p.type()
            if t.k == 'void': return 'return;'
            return 'return %s;' % s.val(t, p.value(t))
        if op == 'br':
            if p.peek()[1] == 'label':
                to = lab(); return '%sgoto %s;' % (edge(bn, to), L(to))
            t = p.type(); c = s.val(t, p.value(t)); p.expect(','); a = lab(); p.expect(','); b = lab()
            return 'if (%s) { %sgoto %s; } else { %sgoto %s; }' % (c, edge(bn, a), L(a), edge(bn, b), L(b))
        if op == 'switch':
            t = p.type(); v = s.val(t, p.value(t)); p.expect(','); d = lab(); p.expect('[')
            cases = []
            while not p.accept(']'):
                ct = p.type(); cv = p.value(ct); p.expect(','); cl = lab(); cases.append((cv, cl))
            r = 'switch (%s) { ' % v
            for cv, cl in cases: r += 'case %s: %sgoto %s; ' % (s.val(t, cv), edge(bn, cl), L(cl))
            r += 'default: %sgoto %s; }' % (edge(bn, d), L(d))
            return r
        if op == 'unreachable':
            return '__CPROVER_assert(0, "llvm unreachable reached"); __CPROVER_assume(0);'
        if op == 'alloca':
            p.accept('inalloca'); t = p.type(); cnt = None
            if p.accept(','):
                if p.peek()[1] != 'align':
                    ct = p.type(); cnt = s.val(ct, p.value(ct))
            setty(dst, PtrT(t))
            tn = s.ct(t)
            if cnt is None: return 'static_assert_dummy: ; { static int _d; } %s = (%s)__builtin_alloca(sizeof(%s));' % (D, s.ct(PtrT(t)), tn) if False else '%s %s_mem; %s = &%s_mem;' % (tn, D, D, D)
            return '%s = (%s)__builtin_alloca(sizeof(%s) * %s);' % (D, s.ct(PtrT(t)), tn, cnt)
        if op == 'load':
            p.accept('atomic'); p.accept('volatile'); t = p.type(); p.expect(','); pt = p.type(); pv = s.val(pt, p.value(pt))
            setty(dst, t); return '%s = *%s;' % (D, pv)
        if op == 'store':
            p.accept('atomic'); p.accept('volatile'); t = p.type(); v = s.val(t, p.value(t)); p.expect(','); pt = p.type(); pv = s.val(pt, p.value(pt))
            return '*%s = %s;' % (pv, v)
        if op == 'getelementptr':
            p.accept('inbounds'); sty = p.type(); p.expect(','); pt = p.type(); base = s.val(pt, p.value(pt)); idx = []
            while p.accept(','):
                if p.peek()[0] == 'meta': break
                it = p.type(); idx.append((it, s.val(it, p.value(it))))
            e, rt = s.gep_expr(sty, pt, base, idx); setty(dst, rt); return '%s = %s;' % (D, e)
        if op in ('bitcast', 'trunc', 'zext', 'sext', 'inttoptr', 'ptrtoint', 'fptrunc', 'fpext', 'uitofp', 'sitofp', 'fptoui', 'fptosi', 'addrspacecast'):
            ft = p.type(); v = s.val(ft, p.value(ft)); p.expect('to'); tt = p.type(); setty(dst, tt)
            pre = ''
            if op in ('fptosi', 'fptoui') and s.need_checks:
                n = s.res(tt).n
                if op == 'fptosi': lo, hi = -(2.0 ** (n - 1)) - 1.0, 2.0 ** (n - 1)
                else: lo, hi = -1.0, 2.0 ** n
                pre = '__CPROVER_assert(%s > %s && %s < %s, "UB: float-to-int conversion out of range (%s to i%d)"); ' % (v, float(lo).hex(), v, float(hi).hex(), op, n)
            return '%s%s = %s;' % (pre, D, s.cast_expr(op, ft, v, tt))
        if op in ('add', 'sub', 'mul', 'and', 'or', 'xor', 'shl', 'lshr', 'ashr', 'udiv', 'sdiv', 'urem', 'srem', 'fadd', 'fsub', 'fmul', 'fdiv', 'frem'):
            flags = []
            while p.peek()[1] in ('nsw', 'nuw', 'exact', 'fast', 'nnan', 'ninf', 'nsz', 'arcp', 'contract', 'afn', 'reassoc'): flags.append(p.next()[1])
            t = p.type(); a = s.val(t, p.value(t)); p.expect(','); b = s.val(t, p.value(t)); setty(dst, t)
            pre = ''
            if s.need_checks and 'nsw' in flags and op in ('add', 'sub', 'mul'):
                sg = s.signed_ct(t); nm = {'add': 'plus', 'sub': 'minus', 'mul': 'mult'}[op]
                pre = '__CPROVER_assert(!__CPROVER_overflow_%s((%s)%s, (%s)%s), "UB: signed overflow in %s nsw"); ' % (nm, sg, a, sg, b, op)
            if s.need_checks and op in ('udiv', 'sdiv', 'urem', 'srem'):
                pre = '__CPROVER_assert(%s != 0, "UB: division by zero"); ' % b
            return '%s%s = %s;' % (pre, D, s.bin_expr(op, t, a, b, flags))
        if op == 'fneg':
            while p.peek()[1] in ('fast', 'nnan', 'ninf', 'nsz', 'arcp', 'contract', 'afn', 'reassoc'): p.next()
            t = p.type(); a = s.val(t, p.value(t)); setty(dst, t); return '%s = -%s;' % (D, a)
        if op == 'icmp':
            pred = p.next()[1]; t = p.type(); a = s.val(t, p.value(t)); p.expect(','); b = s.val(t, p.value(t)); setty(dst, IntT(1))
            return '%s = %s;' % (D, s.icmp_expr(pred, t, a, b))
        if op == 'fcmp':
            while p.peek()[1] in ('fast', 'nnan', 'ninf', 'nsz', 'arcp', 'contract', 'afn', 'reassoc'): p.next()
            pred = p.next()[1]; t = p.type(); a = s.val(t, p.value(t)); p.expect(','); b = s.val(t, p.value(t)); setty(dst, IntT(1))
            return '%s = %s;' % (D, s.fcmp_expr(pred, a, b))
        if op == 'select':
            while p.peek()[1] in ('fast', 'nnan', 'ninf', 'nsz', 'arcp', 'contract', 'afn', 'reassoc'): p.next()
            ct = p.type(); c = s.val(ct, p.value(ct)); p.expect(','); t = p.type(); a = s.val(t, p.value(t)); p.expect(','); t2 = p.type(); b = s.val(t2, p.value(t2))
            setty(dst, t); return '%s = %s ? %s : %s;' % (D, c, a, b)
        if op == 'freeze':
            t = p.type(); a = s.val(t, p.value(t)); setty(dst, t); return '%s = %s;' % (D, a)
        if op == 'extractvalue':
            t = p.type(); a = s.val(t, p.value(t)); cur = t; e = a
            while p.accept(','):
                if p.peek()[0] == 'meta': break
                i = int(p.next()[1]); r = s.res(cur)
                if r.k == 'struct': e += '.f%d' % i; cur = r.elems[i]
                else: e += '.a[%d]' % i; cur = r.e
            setty(dst, cur); return '%s = %s;' % (D, e)
        if op == 'insertvalue':
            t = p.type(); a = s.val(t, p.value(t)); p.expect(','); et = p.type(); ev = s.val(et, p.value(et)); cur = t; e = D
            while p.accept(','):
                if p.peek()[0] == 'meta': break
                i = int(p.next()[1]); r = s.res(cur)
                if r.k == 'struct': e += '.f%d' % i; cur = r.elems[i]
                else: e += '.a[%d]' % i; cur = r.e
            setty(dst, t); return '%s = %s; %s = %s;' % (D, a, e, ev)
        if op in ('call', 'invoke'):
            while p.peek()[1] in ('fast', 'nnan', 'ninf', 'nsz', 'arcp', 'contract', 'afn', 'reassoc', 'fastcc', 'ccc', 'coldcc', 'tailcc'): p.next()
            p.skip_attrs()
            rt = p.type()
            fty = None
            if rt.k == 'func':  # full function type given (varargs / indirect)
                fty = rt; rt = fty.ret
            elif rt.k == 'ptr' and rt.e.k == 'func' and p.peek()[0] not in ('glob', 'gq', 'local', 'lq'):
                pass
            k, cal = p.peek()
            callee = p.value(PtrT(IntT(8)))
            p.expect('('); args = []; ats = []
            if not p.accept(')'):
                while True:
                    at = p.type(); attrs = p.skip_attrs()
                    if at.k == 'metadata':
                        # metadata arg: skip tokens until , or )
                        depth = 0
                        while not (depth == 0 and p.peek()[1] in (',', ')')):
                            if p.peek()[1] == '(': depth += 1
                            if p.peek()[1] == ')': depth -= 1
                            p.next()
                        args.append(None); ats.append(at)
                    else:
                        av = p.value(at); args.append((at, av, attrs)); ats.append(at)
                    if p.accept(')'): break
                    p.expect(',')
            if dst is not None: setty(dst, rt)
            tail = ''
            if op == 'invoke':
                p.skip_attrs(); p.expect('to'); nl = lab(); p.expect('unwind'); ul = lab()
                tail = ' %sgoto %s;' % (edge(bn, nl), L(nl))
            if callee[0] == 'global' and callee[1] in ('_Znwm', '_Znam') and dst is not None:
                T = s.alloc_types.get((f.name, dst))
                sz = s.val(args[0][0], args[0][1])
                if T is not None:
                    tn = s.ct(T)
                    if args[0][1][0] == 'int':
                        return '%s = (p_i8)malloc(sizeof(%s) * (%s / sizeof(%s))); __CPROVER_assume(%s != 0);%s' % (D, tn, sz, tn, D, tail)
                    return '%s = (p_i8)malloc(sizeof(%s) * (%s / sizeof(%s))); __CPROVER_assume(%s != 0);%s' % (D, tn, sz, tn, D, tail)
            if callee[0] == 'global':
                name = callee[1]
                r = s.intrinsic(name, D, rt, args)
                if r is not None: return r + tail
                cexpr = s.gname(name)
                s.called.add(name)
            else:
                ft = fty or Ty('func', ret=rt, params=ats, va=False)
                cexpr = '((%s)%s)' % (s.ct(PtrT(ft)), s.val(PtrT(ft), callee))
            pre = ''
            cargs = []
            for i, a in enumerate(args):
                at, av, attrs = a
                e = s.val(at, av)
                if 'byval' in attrs:
                    bt = attrs['byval']; tmp = 'bv%d_%d' % (s.uid(), i)
                    pre += '%s %s = *%s; ' % (s.ct(bt), tmp, e); e = '&' + tmp
                cargs.append(e)
            call = '%s(%s)' % (cexpr, ', '.join(cargs))
            if dst is not None and rt.k != 'void': return '%s{ %s%s = %s; }%s' % ('', pre, D, call, tail) if pre else '%s = %s;%s' % (D, call, tail)
            return ('{ %s%s; }' % (pre, call) if pre else call + ';') + tail
        if op == 'landingpad' or op == 'resume':
            if op == 'landingpad':
                t = p.type(); setty(dst, t); return '__CPROVER_assume(0); /* landingpad */'
            return '__CPROVER_assume(0); /* resume */'
        if op == 'fence': return ''
        if op == 'atomicrmw':
            p.accept('volatile'); aop = p.next()[1]; pt = p.type(); pv = s.val(pt, p.value(pt)); p.expect(','); t = p.type(); v = s.val(t, p.value(t))
            setty(dst, t)
            o = {'add': '+', 'sub': '-', 'and': '&', 'or': '|', 'xor': '^'}.get(aop)
            if aop == 'xchg': return '%s = *%s; *%s = %s;' % (D, pv, pv, v)
            return '%s = *%s; *%s = (%s)(%s %s %s);' % (D, pv, pv, s.ct(t), D, o, v)
        if op == 'cmpxchg':
            p.accept('weak'); p.accept('volatile'); pt = p.type(); pv = s.val(pt, p.value(pt)); p.expect(','); t = p.type(); cmp = s.val(t, p.value(t)); p.expect(','); t2 = p.type(); new = s.val(t2, p.value(t2))
            rt = Ty('struct', elems=[t, IntT(1)], packed=False); setty(dst, rt)
            return '%s.f0 = *%s; %s.f1 = (%s.f0 == %s); if (%s.f1) *%s = %s;' % (D, pv, D, D, cmp, D, pv, new)
        raise SyntaxError("unhandled instruction %s in %s" % (op, f.name))

    _uid = 0
    def uid(s): Emit._uid += 1; return Emit._uid

    def intrinsic(s, name, D, rt, args):
        A = lambda i: s.val(args[i][0], args[i][1])
        if not name.startswith('llvm.'): return None
        if re.match(r'llvm\.(lifetime|experimental\.noalias|dbg|assume|invariant|donothing|prefetch|var\.annotation)', name): return ''
        def al(i):
            try: return int(args[i][2].get('align', 1))
            except Exception: return 1
        def csz():
            return args[2][1][1] if args[2][1][0] == 'int' else None
        def origin(i):
            v = args[i][1]
            if v[0] == 'local' and v[1] in s.bc: return s.bc[v[1]]
            if v[0] == 'ccast' and v[3][0] == 'global' and v[3][1] in s.mod.globals:
                return ('#' + v[3][1], s.mod.globals[v[3][1]]['ty'])
            return None
        if (name.startswith('llvm.memcpy') or name.startswith('llvm.memmove')) and csz() is not None and origin(0) and origin(1) and tyname(origin(0)[1]) == tyname(origin(1)[1]):
            tn = s.ct(origin(0)[1])
            return 'if (sizeof(%s) == %d) *%s = *%s; else __ll_memcpy((void*)%s, (const void*)%s, %s);' % (tn, csz(), s.lname(origin(0)[0]), s.lname(origin(1)[0]), A(0), A(1), A(2))
        if name.startswith('llvm.memset') and csz() is not None and origin(0) and args[1][1] == ('int', 0):
            tn = s.ct(origin(0)[1])
            tgt = ('(&%s)' % s.gname(origin(0)[0][1:])) if origin(0)[0].startswith('#') else s.lname(origin(0)[0])
            return 'if (sizeof(%s) == %d) *%s = (%s){0}; else __ll_memset((void*)%s, 0, %s);' % (tn, csz(), tgt, tn, A(0), A(2))
        if name.startswith('llvm.memcpy') or name.startswith('llvm.memmove'):
            fn = 'memcpy' if name.startswith('llvm.memcpy') else 'memmove'
            if csz() is not None and csz() % 8 == 0 and al(0) >= 8 and al(1) >= 8: return '__ll_%s8((unsigned long*)%s, (const unsigned long*)%s, %d);' % (fn, A(0), A(1), csz() // 8)
            return '__ll_%s((void*)%s, (const void*)%s, %s);' % (fn, A(0), A(1), A(2))
        if name.startswith('llvm.memset'):
            if csz() is not None and csz() % 8 == 0 and al(0) >= 8: return '__ll_memset8((unsigned long*)%s, %s, %d);' % (A(0), A(1), csz() // 8)
            return '__ll_memset((void*)%s, %s, %s);' % (A(0), A(1), A(2))
        if name.startswith('llvm.trap'): return '__CPROVER_assert(0, "llvm.trap"); __CPROVER_assume(0);'
        if name.startswith('llvm.expect'): return '%s = %s;' % (D, A(0))
        if name.startswith('llvm.is.constant'): return '%s = 0;' % D
        if name.startswith('llvm.objectsize'): return '%s = (%s)-1;' % (D, s.ct(rt))
        m = re.match(r'llvm\.(umin|umax|smin|smax)\.', name)
        if m:
            o = m.group(1); t = args[0][0]; a, b = A(0), A(1)
            if o[0] == 's': sg = s.signed_ct(t); ca, cb = '(%s)%s' % (sg, a), '(%s)%s' % (sg, b)
            else: ca, cb = a, b
            return '%s = (%s %s %s) ? %s : %s;' % (D, ca, '<' if o.endswith('min') else '>', cb, a, b)
        m = re.match(r'llvm\.(fabs|sqrt|floor|ceil|round|trunc|rint|nearbyint|copysign|pow|fma|fmuladd|exp|log|sin|cos|minnum|maxnum|lround|llround)\.(f32|f64)', name)
        if m:
            fn, w = m.group(1), m.group(2); sfx = 'f' if w == 'f32' else ''
            if fn == 'fmuladd': return '%s = %s * %s + %s;' % (D, A(0), A(1), A(2))
            cn = {'minnum': 'fmin', 'maxnum': 'fmax'}.get(fn, fn)
            return '%s = __builtin_%s%s(%s);' % (D, cn, sfx, ', '.join(A(i) for i in range(len(args))))
        m = re.match(r'llvm\.abs\.', name)
        if m: sg = s.signed_ct(args[0][0]); return '%s = ((%s)%s < 0) ? (%s)(-(%s)%s) : %s;' % (D, sg, A(0), s.ct(rt), sg, A(0), A(0))
        m = re.match(r'llvm\.(ctlz|cttz|ctpop|bswap)\.i(\d+)', name)
        if m: return '%s = __ll_%s%s(%s);' % (D, m.group(1), m.group(2), A(0))
        m = re.match(r'llvm\.(u|s)(add|sub|mul)\.with\.overflow\.i(\d+)', name)
        if m:
            sg, o, n = m.groups(); t = args[0][0]
            nm = {'add': 'plus', 'sub': 'minus', 'mul': 'mult'}[o]; co = {'add': '+', 'sub': '-', 'mul': '*'}[o]
            ca = lambda e: '(%s)%s' % (s.signed_ct(t), e) if sg == 's' else e
            return '%s.f0 = (%s)(%s %s %s); %s.f1 = __CPROVER_overflow_%s(%s, %s);' % (D, s.ct(t), A(0), co, A(1), D, nm, ca(A(0)), ca(A(1)))
        m = re.match(r'llvm\.(uadd|usub|sadd|ssub)\.sat', name)
        if m: raise SyntaxError('sat intrinsic')
        if name.startswith('llvm.eh.typeid.for'): return '%s = 0;' % D
        if name.startswith('llvm.stacksave'): return '%s = 0;' % D
        if name.startswith('llvm.stackrestore'): return ''
        if name.startswith('llvm.va_'): return ''
        raise SyntaxError("intrinsic " + name)

    def run(s, roots=None, stub=()):
        mod = s.mod
        # reachability from roots: joint fixpoint over functions and globals
        s.called = set()
        fn_c = {}
        seen = set(); gseen = set()
        work = [('f', n) for n in (roots if roots else [n for n, f in mod.funcs.items() if f.defined])]
        def refs(v, acc):
            if isinstance(v, tuple):
                if v and v[0] == 'global': acc.add(v[1])
                for x in v: refs(x, acc)
            elif isinstance(v, list):
                for x in v: refs(x, acc)
        def note(g):
            if g in mod.funcs: work.append(('f', g))
            elif g in mod.globals: work.append(('g', g))
        while work:
            kind, n = work.pop()
            if kind == 'f':
                if n in seen: continue
                seen.add(n)
                f = mod.funcs.get(n)
                if f is None or not f.defined or n in stub or any(re.search(p, n) for p in s.stub_re): continue
                fn_c[n] = s.emit_func(f)
                for bn, il in f.blocks:
                    for toks in il:
                        for k, v in toks:
                            if k in ('glob', 'gq'):
                                g = v[1:]; g = g[1:-1] if g.startswith('"') else g
                                note(g)
            else:
                if n in gseen: continue
                gseen.add(n)
                gi = mod.globals[n]
                acc = set(); refs(gi.get('init'), acc); refs(gi.get('alias'), acc)
                for r in acc: note(r)
        # emit
        gdecl = []; gdef = []
        for g in [n for k, n in mod.order if k == 'g' and n in gseen]:
            gi = mod.globals[g]; tn = s.ct(gi['ty'])
            if gi.get('alias') is not None: continue
            if gi['init'] is None:
                gdecl.append('extern %s %s;' % (tn, s.gname(g)))
            else:
                gdecl.append('%s%s %s;' % ('', tn, s.gname(g)) if False else 'extern %s %s;' % (tn, s.gname(g)))
                gdef.append('%s %s = %s;' % (tn, s.gname(g), s.val(gi['ty'], gi['init'], True)))
        protos = []
        for n in sorted(seen):
            f = mod.funcs.get(n)
            if f is None: continue
            if n.startswith('llvm.'): continue
            protos.append(s.proto(f) + ';')
        s.flush_structs()
        # order typedefs: struct bodies need complete member types; since ct() emits dependencies first (recursion), order is valid
        # except forward `struct X;` pointer typedefs, which are fine.
        s.flush_structs()
        hdr = ['/* generated by ll2c.py */', 'void *malloc(unsigned long);', 'void *__ll_memcpy(void*, const void*, unsigned long); void *__ll_memmove(void*, const void*, unsigned long); void *__ll_memset(void*, int, unsigned long);',
               'void __ll_memcpy8(unsigned long*, const unsigned long*, unsigned long); void __ll_memmove8(unsigned long*, const unsigned long*, unsigned long); void __ll_memset8(unsigned long*, int, unsigned long);']
        return '\n'.join(hdr + s.tydecl + protos + gdecl + gdef + [fn_c[n] for n in fn_c]) + '\n'

if __name__ == '__main__':
    import argparse
    ap = argparse.ArgumentParser()
    ap.add_argument('ll'); ap.add_argument('-o', default='-'); ap.add_argument('--root', action='append', default=[]); ap.add_argument('--stub', action='append', default=[])
    ap.add_argument('--no-checks', action='store_true'); ap.add_argument('--stub-re', action='append', default=[])
    a = ap.parse_args()
    mod = parse_module(open(a.ll).read())
    em = Emit(mod); em.need_checks = not a.no_checks; em.stub_re = a.stub_re
    c = em.run(a.root or None, set(a.stub))
    (sys.stdout if a.o == '-' else open(a.o, 'w')).write(c)
