#!/usr/bin/env python3
"""ll2py: translate LLVM-14 textual IR into a Python module that runs on symrt (engine E2).

Every IR function becomes one Python function (basic blocks dispatched through a binary
if-tree on a block index, phi nodes lowered on edges as parallel assignments). Integer
values are unsigned Python ints or symrt.S, pointers are 64-bit ints ((object id << 32) | offset),
floats Python floats or symrt.SF. C++ exceptions are Python exceptions (CxxThrow):
`invoke` is try/except, `landingpad` matches the type-info clauses, `resume` re-raises.
UB that the IR still records (nsw, fptosi range, division by zero, shifts, unreachable) is
checked at run time (solver query when the operands are symbolic).
"""
import re, sys, struct
sys.path.insert(0, __import__('os').path.dirname(__file__))
from ll2c import parse_module, P, Ty, IntT, PtrT, san, VOID, FLOAT, DOUBLE

FMF = ('fast', 'nnan', 'ninf', 'nsz', 'arcp', 'contract', 'afn', 'reassoc')
GLOBAL_BASE = 0x1000          # object ids of globals start here
FUNC_BASE = 0x00800000        # object ids of functions

class Gen:
    def __init__(s, mod, check_ub=True, slot=0):
        s.mod = mod; s.check_ub = check_ub
        s.gaddr = {}; s.faddr = {}; s.fpy = {}
        # several units may be loaded into one process: each gets its own id range for globals and functions
        i = GLOBAL_BASE + slot * 0x80000
        for k, n in mod.order:
            if k == 'g':
                s.gaddr[n] = i << 32; i += 1
        j = FUNC_BASE + slot * 0x80000; j0 = j
        for k, n in mod.order:
            if k == 'f':
                s.faddr[n] = j << 32; s.fpy[n] = 'F%d' % (j - j0); j += 1
        # aliases (e.g. C1 -> C2 constructors)
        def alias_target(v):
            while v and v[0] == 'ccast': v = v[3]
            return v[1] if v and v[0] == 'global' else None
        for n, gi in mod.globals.items():
            if gi.get('alias') is not None:
                t = alias_target(gi['alias'])
                seen = set()
                while t in mod.globals and mod.globals[t].get('alias') is not None and t not in seen:
                    seen.add(t); t = alias_target(mod.globals[t]['alias'])
                if t in s.faddr:
                    s.faddr[n] = s.faddr[t]; s.fpy[n] = s.fpy[t]; del s.gaddr[n]
                    s.alias_fn = getattr(s, 'alias_fn', {}); s.alias_fn[n] = t
                elif t in s.gaddr: s.gaddr[n] = s.gaddr[t]
        s.layout_cache = {}
        s.tdesc_cache = {}
        s.consts = []   # module-level constants (switch tables, type descriptors)

    # ---------------------------------------------------------------- layout
    def res(s, t):
        while t.k == 'named': t = s.mod.named[t.name]
        return t
    def size_align(s, t):
        t0 = t
        if t.k == 'named':
            if t.name in s.layout_cache: return s.layout_cache[t.name][:2]
            t = s.res(t)
        k = t.k
        if k == 'int':
            n = t.n
            if n <= 8: return 1, 1
            if n <= 16: return 2, 2
            if n <= 32: return 4, 4
            if n <= 64: return 8, 8
            return 16, 16
        if k == 'float': return 4, 4
        if k == 'double': return 8, 8
        if k == 'x86_fp80': return 16, 16
        if k == 'ptr': return 8, 8
        if k == 'array':
            sz, al = s.size_align(t.e); return sz * t.n, al
        if k == 'vector':
            sz, al = s.size_align(t.e); tot = sz * t.n
            a = 1
            while a < tot: a *= 2
            return tot, a
        if k == 'struct':
            sz, al, offs = s.struct_layout(t)
            if t0.k == 'named': s.layout_cache[t0.name] = (sz, al, offs)
            return sz, al
        if k == 'opaque': return 0, 1
        if k == 'func': return 0, 1
        raise ValueError('size of ' + k)
    def struct_layout(s, t):
        off = 0; al = 1; offs = []
        for e in t.elems:
            sz, a = s.size_align(e)
            if t.packed: a = 1
            off = (off + a - 1) // a * a
            offs.append(off); off += sz
            al = max(al, a)
        off = (off + al - 1) // al * al
        return off, al, offs
    def field_offsets(s, t):
        if t.k == 'named':
            s.size_align(t)
            if t.name in s.layout_cache: return s.layout_cache[t.name][2]
        return s.struct_layout(s.res(t))[2]

    def tdesc(s, t):
        """type descriptor for aggregate load/store: nested tuples"""
        r = s.res(t); k = r.k
        if k == 'int': return ('i', s.size_align(r)[0], r.n)
        if k == 'ptr': return ('i', 8, 64)
        if k == 'float': return ('f32',)
        if k == 'double': return ('f64',)
        if k == 'struct':
            offs = s.field_offsets(t)
            return ('s', tuple((o, s.tdesc(e)) for o, e in zip(offs, r.elems)))
        if k in ('array', 'vector'):
            return ('a', r.n, s.size_align(r.e)[0], s.tdesc(r.e))
        raise ValueError('tdesc ' + k)

    # ---------------------------------------------------------------- constants
    def cint(s, t, v):
        return v & ((1 << t.n) - 1)
    def fplit(s, v):
        if v != v: return 'NAN'
        if v == float('inf'): return 'INF'
        if v == float('-inf'): return '(-INF)'
        return repr(float(v))
    def const_eval(s, t, v):
        """evaluate a constant to a Python value (int/float/list); None if it refers to locals"""
        k = v[0]; rt = s.res(t)
        if k == 'int': return s.cint(rt, v[1]) if rt.k == 'int' else v[1]
        if k == 'fp':
            if rt.k == 'float': return struct.unpack('<f', struct.pack('<f', v[1]))[0] if v[1] == v[1] and abs(v[1]) != float('inf') else v[1]
            return v[1]
        if k == 'null': return 0
        if k == 'global':
            if v[1] in s.faddr: return s.faddr[v[1]]
            return s.gaddr[v[1]]
        if k in ('undef', 'zero'): return s.zero_of(t)
        if k == 'bytes': return list(v[1])
        if k == 'cstruct': return [s.const_eval(et, ev) for et, ev in v[1]]
        if k == 'carray': return [s.const_eval(et, ev) for et, ev in v[1]]
        if k == 'cgep':
            _, sty, pty, base, idx = v
            b = s.const_eval(pty, base)
            off = 0; cur = sty
            for n, (ity, iv) in enumerate(idx):
                i = s.const_eval(ity, iv)
                w = s.res(ity).n
                if i >> (w - 1): i -= 1 << w
                if n == 0: off += i * s.size_align(cur)[0]
                else:
                    r = s.res(cur)
                    if r.k == 'struct': off += s.field_offsets(cur)[i]; cur = r.elems[i]
                    else: off += i * s.size_align(r.e)[0]; cur = r.e
            return (b + off) & ((1 << 64) - 1)
        if k == 'ccast':
            _, op, fty, val, tty = v
            x = s.const_eval(fty, val); T = s.res(tty)
            if op in ('bitcast', 'inttoptr', 'ptrtoint', 'addrspacecast', 'zext'):
                if T.k == 'int': return x & ((1 << T.n) - 1)
                return x
            if op == 'trunc': return x & ((1 << T.n) - 1)
            if op == 'sext':
                F = s.res(fty)
                if x >> (F.n - 1): x -= 1 << F.n
                return x & ((1 << T.n) - 1)
        if k == 'cbin':
            _, op, aty, a, b = v
            x = s.const_eval(aty, a); y = s.const_eval(aty, b); w = s.res(aty).n if s.res(aty).k == 'int' else 64; m = (1 << w) - 1
            if op == 'add': return (x + y) & m
            if op == 'sub': return (x - y) & m
            if op == 'mul': return (x * y) & m
            if op == 'and': return x & y
            if op == 'or': return x | y
            if op == 'xor': return x ^ y
            if op == 'shl': return (x << y) & m if y < w else 0
            if op == 'lshr': return x >> y if y < w else 0
            raise ValueError('const binop ' + op)
        if k == 'cicmp':
            _, pred, aty, a, b = v
            x = s.const_eval(aty, a); y = s.const_eval(aty, b)
            return int({'eq': x == y, 'ne': x != y}[pred])
        if k == 'cselect':
            _, c, aty, a, b = v
            return s.const_eval(aty, a) if s.const_eval(IntT(1), c) else s.const_eval(aty, b)
        raise ValueError('const ' + repr(v)[:80])
    def zero_of(s, t):
        r = s.res(t)
        if r.k in ('int', 'ptr'): return 0
        if r.k in ('float', 'double', 'x86_fp80'): return 0.0
        if r.k == 'struct': return [s.zero_of(e) for e in r.elems]
        if r.k in ('array', 'vector'): return [s.zero_of(r.e) for _ in range(r.n)]
        return 0
    def pylit(s, x):
        if isinstance(x, float): return s.fplit(x)
        if isinstance(x, list): return '[' + ', '.join(s.pylit(e) for e in x) + ']'
        return repr(x)

    def init_bytes(s, t, v, out, off):
        """write constant v of type t into bytearray out at off"""
        k = v[0]; r = s.res(t)
        if k in ('zero', 'undef'): return
        if r.k == 'int' or r.k == 'ptr':
            x = s.const_eval(t, v); n = s.size_align(r)[0]
            out[off:off + n] = (x & ((1 << (8 * n)) - 1)).to_bytes(n, 'little'); return
        if r.k == 'float': out[off:off + 4] = struct.pack('<f', s.const_eval(t, v)); return
        if r.k == 'double': out[off:off + 8] = struct.pack('<d', s.const_eval(t, v)); return
        if k == 'bytes': out[off:off + len(v[1])] = bytes(v[1]); return
        if k == 'cstruct':
            offs = s.field_offsets(t) if t.k == 'named' else s.struct_layout(r)[2]
            for (et, ev), o in zip(v[1], offs): s.init_bytes(et, ev, out, off + o)
            return
        if k == 'carray':
            st = s.size_align(r.e)[0]
            for i, (et, ev) in enumerate(v[1]): s.init_bytes(et, ev, out, off + i * st)
            return
        raise ValueError('init ' + repr(v)[:60] + ' for ' + r.k)

    # ---------------------------------------------------------------- values in function bodies
    def lname(s, n): return 'v_' + san(n)
    def val(s, t, v):
        if v[0] == 'local': return s.lname(v[1])
        return s.pylit(s.const_eval(t, v))

    # ---------------------------------------------------------------- function emission
    def emit_func(s, f):
        nunn = 0; params = []
        for i, (t, n) in enumerate(f.params):
            if n is None: n = str(nunn); nunn += 1
            elif n.isdigit(): nunn = int(n) + 1
            params.append((t, n))
        f.params = params
        blocks = f.blocks
        bidx = {bn: i for i, (bn, il) in enumerate(blocks)}
        insts = {}
        for bn, il in blocks:
            for toks in il:
                p = P(toks, s.mod); dst = None
                if p.peek(1)[1] == '=' and p.peek()[0] in ('local', 'lq'):
                    d = p.next()[1][1:]; dst = d[1:-1] if d.startswith('"') else d; p.next()
                insts.setdefault(bn, []).append((dst, p))
        phis = {}
        for bn, il in blocks:
            for dst, p in insts.get(bn, []):
                if p.peek()[1] == 'phi':
                    save = p.i; p.next()
                    while p.peek()[1] in FMF: p.next()
                    t = p.type(); inc = []
                    while True:
                        p.expect('['); v = p.value(t); p.expect(',')
                        pr = p.next()[1][1:]; pr = pr[1:-1] if pr.startswith('"') else pr
                        p.expect(']'); inc.append((v, pr))
                        if not p.accept(','): break
                        if p.peek()[0] == 'meta': break
                    phis.setdefault(bn, []).append((dst, t, inc))
                    p.i = save
        s.cur_has_alloca = any(p.peek()[1] == 'alloca' for bn, il in blocks for dst, p in insts.get(bn, []))
        s.cur_has_byval = False
        def edge(frm, to, ind):
            ps = phis.get(to, [])
            lines = []
            if ps:
                ds = []; vs = []
                for d, t, inc in ps:
                    v = [val for val, pred in inc if pred == frm]
                    if not v: raise ValueError('phi no incoming %s<-%s in %s' % (to, frm, f.name))
                    ds.append(s.lname(d)); vs.append(s.val(t, v[0]))
                if len(ds) == 1: lines.append('%s = %s' % (ds[0], vs[0]))
                else: lines.append('%s = %s' % (', '.join(ds), ', '.join(vs)))
            ti = bidx[to]
            if ti <= bidx[frm]:
                lines.append('STEP[0] += 1')
                lines.append('if STEP[0] > LIM[0]: rt.step_budget()')
            lines.append('bb = %d' % ti)
            lines.append('continue')
            return [ind + l for l in lines]
        body = {}
        for bn, il in blocks:
            lines = []
            for dst, p in insts.get(bn, []):
                op = p.next()[1]
                if op in ('tail', 'musttail', 'notail'): op = p.next()[1]
                if op == 'phi': continue
                lines += s.emit_inst(f, bn, dst, op, p, edge)
            body[bn] = lines
        # assemble
        args = ', '.join(s.lname(n) for t, n in params)
        if f.va: args += (', ' if args else '') + '*va'
        out = ['def %s(%s):  # %s' % (s.fpy[f.name], args, f.name)]
        ind = '    '
        out.append(ind + 'STEP[0] += 1')
        out.append(ind + 'if STEP[0] > LIM[0]: rt.step_budget()')
        if s.cur_has_alloca or s.cur_has_byval:
            out.append(ind + 'fr = []')
            out.append(ind + 'try:')
            ind += '    '
        if len(blocks) == 1:
            out.append(ind + 'while True:')
            for l in body[blocks[0][0]]: out.append(ind + '    ' + l)
        else:
            out.append(ind + 'bb = 0; exc = None')
            out.append(ind + 'while True:')
            def tree(lo, hi, ind2):
                if hi - lo == 1:
                    for l in body[blocks[lo][0]]: out.append(ind2 + l)
                    return
                mid = (lo + hi) // 2
                out.append(ind2 + 'if bb < %d:' % mid)
                tree(lo, mid, ind2 + ' ')
                out.append(ind2 + 'else:')
                tree(mid, hi, ind2 + ' ')
            tree(0, len(blocks), ind + ' ')
        if s.cur_has_alloca or s.cur_has_byval:
            ind = ind[:-4]
            out.append(ind + 'finally:')
            out.append(ind + '    rt.release(fr)')
        return '\n'.join(out)

    def emit_inst(s, f, bn, dst, op, p, edge):
        D = s.lname(dst) if dst is not None else None
        def lab():
            p.expect('label'); n = p.next()[1][1:]; return n[1:-1] if n.startswith('"') else n
        def W(t): return s.res(t).n
        if op == 'ret':
            t = p.type()
            if t.k == 'void': return ['return None']
            return ['return ' + s.val(t, p.value(t))]
        if op == 'br':
            if p.peek()[1] == 'label':
                return edge(bn, lab(), '')
            t = p.type(); c = s.val(t, p.value(t)); p.expect(','); a = lab(); p.expect(','); b = lab()
            return ['if %s:' % c] + edge(bn, a, ' ') + ['else:'] + edge(bn, b, ' ')
        if op == 'switch':
            t = p.type(); v = s.val(t, p.value(t)); p.expect(','); d = lab(); p.expect('[')
            cases = []
            while not p.accept(']'):
                ct = p.type(); cv = s.const_eval(ct, p.value(ct)); p.expect(','); cl = lab(); cases.append((cv, cl))
            lines = ['sw = %s' % v]
            lines.append('if sw.__class__ is S: sw = rt.switch_key(sw, %s)' % repr(tuple(c for c, _ in cases)))
            first = True
            # group by target
            bytarget = {}
            for cv, cl in cases: bytarget.setdefault(cl, []).append(cv)
            for cl, cvs in bytarget.items():
                cond = ('sw == %d' % cvs[0]) if len(cvs) == 1 else ('sw in %s' % repr(tuple(cvs)))
                lines.append(('if ' if first else 'elif ') + cond + ':'); first = False
                lines += edge(bn, cl, ' ')
            if first: lines += edge(bn, d, '')
            else:
                lines.append('else:'); lines += edge(bn, d, ' ')
            return lines
        if op == 'unreachable':
            return ['rt.unreachable(%r)' % f.name]
        if op == 'alloca':
            p.accept('inalloca'); t = p.type(); cnt = None
            if p.accept(','):
                if p.peek()[1] != 'align':
                    ct = p.type(); cnt = s.val(ct, p.value(ct))
            sz = s.size_align(t)[0]
            if cnt is None: return ['%s = rt.alloca(%d, fr)' % (D, sz)]
            return ['%s = rt.alloca(%d * int(%s), fr)' % (D, sz, cnt)]
        if op == 'load':
            p.accept('atomic'); p.accept('volatile'); t = p.type(); p.expect(','); pt = p.type(); pv = s.val(pt, p.value(pt))
            return ['%s = %s' % (D, s.load_expr(t, pv))]
        if op == 'store':
            p.accept('atomic'); p.accept('volatile'); t = p.type(); v = s.val(t, p.value(t)); p.expect(','); pt = p.type(); pv = s.val(pt, p.value(pt))
            return [s.store_stmt(t, pv, v)]
        if op == 'getelementptr':
            p.accept('inbounds'); sty = p.type(); p.expect(','); pt = p.type(); base = p.value(pt); idx = []
            while p.accept(','):
                if p.peek()[0] == 'meta': break
                it = p.type(); idx.append((it, p.value(it)))
            return ['%s = %s' % (D, s.gep_expr(sty, pt, base, idx))]
        if op in ('bitcast', 'inttoptr', 'ptrtoint', 'addrspacecast'):
            ft = p.type(); v = s.val(ft, p.value(ft)); p.expect('to'); tt = p.type()
            F = s.res(ft); T = s.res(tt)
            if op == 'bitcast' and F.k != T.k:
                if F.k == 'float' and T.k == 'int': return ['%s = rt.f32_bits(%s)' % (D, v)]
                if F.k == 'int' and T.k == 'float': return ['%s = rt.bits_f32(%s)' % (D, v)]
                if F.k == 'double' and T.k == 'int': return ['%s = rt.f64_bits(%s)' % (D, v)]
                if F.k == 'int' and T.k == 'double': return ['%s = rt.bits_f64(%s)' % (D, v)]
                if F.k == 'vector' or T.k == 'vector':
                    return ['%s = rt.bitcast_agg(%s, %s, %s)' % (D, v, s.pylit_t(s.tdesc(ft)), s.pylit_t(s.tdesc(tt)))]
                raise SyntaxError('bitcast %s -> %s' % (F.k, T.k))
            if op == 'ptrtoint' and T.n < 64: return ['%s = %s & %d' % (D, v, (1 << T.n) - 1)] if True else None
            if op == 'inttoptr' and F.n < 64: return ['%s = %s.zext(64) if %s.__class__ is S else %s' % (D, v, v, v)]
            return ['%s = %s' % (D, v)]
        if op == 'trunc':
            ft = p.type(); v = s.val(ft, p.value(ft)); p.expect('to'); tt = p.type(); w = W(tt)
            if s.res(tt).k == 'vector': raise SyntaxError('vector trunc')
            return ['%s = %s.trunc(%d) if %s.__class__ is S else %s & %d' % (D, v, w, v, v, (1 << w) - 1)]
        if op == 'zext':
            ft = p.type(); v = s.val(ft, p.value(ft)); p.expect('to'); tt = p.type(); w = W(tt)
            return ['%s = %s.zext(%d) if %s.__class__ is S else int(%s)' % (D, v, w, v, v)]
        if op == 'sext':
            ft = p.type(); v = s.val(ft, p.value(ft)); p.expect('to'); tt = p.type(); w = W(tt); fw = W(ft); sb = 1 << (fw - 1)
            return ['%s = %s.sext(%d) if %s.__class__ is S else ((int(%s) ^ %d) - %d) & %d' % (D, v, w, v, v, sb, sb, (1 << w) - 1)]
        if op in ('fptrunc', 'fpext'):
            ft = p.type(); v = s.val(ft, p.value(ft)); p.expect('to'); tt = p.type()
            return ['%s = rt.%s(%s)' % (D, op, v)]
        if op in ('uitofp', 'sitofp'):
            ft = p.type(); v = s.val(ft, p.value(ft)); p.expect('to'); tt = p.type()
            return ['%s = rt.inttofp(%s, %d, %s, %d)' % (D, v, W(ft), op == 'sitofp', 32 if s.res(tt).k == 'float' else 64)]
        if op in ('fptoui', 'fptosi'):
            ft = p.type(); v = s.val(ft, p.value(ft)); p.expect('to'); tt = p.type()
            return ['%s = rt.fptoint(%s, %d, %s, %d)' % (D, v, W(tt), op == 'fptosi', 32 if s.res(ft).k == 'float' else 64)]
        if op in ('add', 'sub', 'mul', 'and', 'or', 'xor', 'shl', 'lshr', 'ashr', 'udiv', 'sdiv', 'urem', 'srem'):
            flags = []
            while p.peek()[1] in ('nsw', 'nuw', 'exact'): flags.append(p.next()[1])
            t = p.type(); av = p.value(t); a = s.val(t, av); p.expect(','); bv = p.value(t); b = s.val(t, bv)
            r = s.res(t)
            if r.k == 'vector':
                return ['%s = rt.vec_bin(%r, %s, %s, %d)' % (D, op, a, b, s.res(r.e).n)]
            w = r.n; m = (1 << w) - 1
            lines = []
            if s.check_ub and 'nsw' in flags and op in ('add', 'sub', 'mul') and w >= 32:
                lines.append('rt.nsw_chk(%r, %s, %s, %d)' % (op, a, b, w))
            if op == 'add': e = '(%s + %s) & %d' % (a, b, m)
            elif op == 'sub': e = '(%s - %s) & %d' % (a, b, m)
            elif op == 'mul': e = '(%s * %s) & %d' % (a, b, m)
            elif op in ('and', 'or', 'xor'):
                e = '%s %s %s' % (a, {'and': '&', 'or': '|', 'xor': '^'}[op], b)
            elif op in ('shl', 'lshr') and bv[0] == 'int' and 0 <= s.const_eval(t, bv) < w:
                e = ('(%s << %s) & %d' % (a, b, m)) if op == 'shl' else '%s >> %s' % (a, b)
            else:
                e = 'rt.%s(%s, %s, %d)' % (op, a, b, w)
            lines.append('%s = %s' % (D, e))
            return lines
        if op in ('fadd', 'fsub', 'fmul', 'fdiv', 'frem'):
            while p.peek()[1] in FMF: p.next()
            t = p.type(); a = s.val(t, p.value(t)); p.expect(','); b = s.val(t, p.value(t))
            rr = s.res(t)
            if rr.k == 'vector':
                ew = 32 if s.res(rr.e).k == 'float' else 64
                return ['%s = rt.vec_fbin(%r, %s, %s, %d)' % (D, op, a, b, ew)]
            fw = 32 if rr.k == 'float' else 64
            if op in ('fdiv', 'frem'): return ['%s = rt.%s(%s, %s, %d)' % (D, op, a, b, fw)]
            o = {'fadd': '+', 'fsub': '-', 'fmul': '*'}[op]
            if fw == 32: return ['%s = rt.r32(%s %s %s)' % (D, a, o, b)]
            return ['%s = %s %s %s' % (D, a, o, b)]
        if op == 'fneg':
            while p.peek()[1] in FMF: p.next()
            t = p.type(); a = s.val(t, p.value(t))
            if s.res(t).k == 'vector': return ['%s = [-x_ for x_ in %s]' % (D, a)]
            return ['%s = -%s' % (D, a)]
        if op == 'icmp':
            pred = p.next()[1]; t = p.type(); a = s.val(t, p.value(t)); p.expect(','); b = s.val(t, p.value(t))
            r = s.res(t)
            if r.k == 'vector': raise SyntaxError('vector icmp')
            w = 64 if r.k == 'ptr' else r.n
            o = {'eq': '==', 'ne': '!=', 'ugt': '>', 'uge': '>=', 'ult': '<', 'ule': '<=', 'sgt': '>', 'sge': '>=', 'slt': '<', 'sle': '<='}[pred]
            if pred[0] == 's':
                sb = 1 << (w - 1)
                return ['%s = (%s ^ %d) %s (%s ^ %d)' % (D, a, sb, o, b, sb)]
            return ['%s = %s %s %s' % (D, a, o, b)]
        if op == 'fcmp':
            while p.peek()[1] in FMF: p.next()
            pred = p.next()[1]; t = p.type(); a = s.val(t, p.value(t)); p.expect(','); b = s.val(t, p.value(t))
            return ['%s = rt.fcmp(%r, %s, %s)' % (D, pred, a, b)]
        if op == 'select':
            while p.peek()[1] in FMF: p.next()
            ct = p.type(); c = s.val(ct, p.value(ct)); p.expect(','); t = p.type(); a = s.val(t, p.value(t)); p.expect(','); t2 = p.type(); b = s.val(t2, p.value(t2))
            r = s.res(t)
            wd = {'int': lambda: str(r.n), 'ptr': lambda: '64', 'float': lambda: "'f32'", 'double': lambda: "'f64'"}.get(r.k, lambda: 'None')()
            return ['%s = (%s if %s else %s) if %s.__class__ is not S else rt.select(%s, %s, %s, %s)' % (D, a, c, b, c, c, a, b, wd)]
        if op == 'freeze':
            t = p.type(); a = s.val(t, p.value(t)); return ['%s = %s' % (D, a)]
        if op == 'extractvalue':
            t = p.type(); a = s.val(t, p.value(t)); e = a
            while p.accept(','):
                if p.peek()[0] == 'meta': break
                e += '[%d]' % int(p.next()[1])
            return ['%s = %s' % (D, e)]
        if op == 'insertvalue':
            t = p.type(); a = s.val(t, p.value(t)); p.expect(','); et = p.type(); ev = s.val(et, p.value(et)); idx = []
            while p.accept(','):
                if p.peek()[0] == 'meta': break
                idx.append(int(p.next()[1]))
            return ['%s = rt.insv(%s, %s, %s)' % (D, a, repr(tuple(idx)), ev)]
        if op == 'extractelement':
            t = p.type(); a = s.val(t, p.value(t)); p.expect(','); it = p.type(); i = s.val(it, p.value(it))
            return ['%s = %s[%s]' % (D, a, i)]
        if op == 'insertelement':
            t = p.type(); a = s.val(t, p.value(t)); p.expect(','); et = p.type(); ev = s.val(et, p.value(et)); p.expect(','); it = p.type(); i = s.val(it, p.value(it))
            return ['%s = rt.insv(%s, (%s,), %s)' % (D, a, i, ev)]
        if op == 'shufflevector':
            t = p.type(); a = s.val(t, p.value(t)); p.expect(','); t2 = p.type(); b = s.val(t2, p.value(t2)); p.expect(','); mt = p.type(); mv = p.value(mt)
            if mv[0] in ('zero', 'undef'): msk = [0] * s.res(mt).n
            else: msk = [(0 if ev[0] == 'undef' else ev[1]) for et, ev in mv[1]]
            return ['%s = rt.shuffle(%s, %s, %s)' % (D, a, b, repr(tuple(msk)))]
        if op in ('call', 'invoke'):
            return s.emit_call(f, bn, dst, op, p, edge, lab)
        if op == 'landingpad':
            t = p.type(); cleanup = False; clauses = []
            while not p.eof():
                k, v = p.peek()
                if v == 'cleanup': p.next(); cleanup = True
                elif v == 'catch':
                    p.next(); ct = p.type(); cv = p.value(ct); clauses.append(s.const_eval(ct, cv))
                elif v == 'filter':
                    p.next(); ct = p.type(); cv = p.value(ct); cleanup = True
                else: break
            return ['%s = rt.landingpad(exc, %s, %s)' % (D, repr(tuple(clauses)), cleanup)]
        if op == 'resume':
            t = p.type(); v = s.val(t, p.value(t))
            return ['rt.resume(%s)' % v]
        if op == 'fence': return []
        if op == 'atomicrmw':
            p.accept('volatile'); aop = p.next()[1]; pt = p.type(); pv = s.val(pt, p.value(pt)); p.expect(','); t = p.type(); v = s.val(t, p.value(t))
            n = s.size_align(t)[0]; m = (1 << (8 * n)) - 1
            lines = ['%s = rt.ld(%s, %d)' % (D, pv, n)]
            if aop == 'xchg': lines.append('rt.st(%s, %d, %s)' % (pv, n, v))
            elif aop in ('add', 'sub', 'and', 'or', 'xor'):
                o = {'add': '+', 'sub': '-', 'and': '&', 'or': '|', 'xor': '^'}[aop]
                lines.append('rt.st(%s, %d, (%s %s %s) & %d)' % (pv, n, D, o, v, m))
            else: raise SyntaxError('atomicrmw ' + aop)
            return lines
        if op == 'cmpxchg':
            p.accept('weak'); p.accept('volatile'); pt = p.type(); pv = s.val(pt, p.value(pt)); p.expect(','); t = p.type(); cmp = s.val(t, p.value(t)); p.expect(','); t2 = p.type(); new = s.val(t2, p.value(t2))
            n = s.size_align(t)[0]
            return ['cx = rt.ld(%s, %d)' % (pv, n), 'if cx == %s:' % cmp, ' rt.st(%s, %d, %s); %s = [cx, True]' % (pv, n, new, D), 'else:', ' %s = [cx, False]' % D]
        if op == 'va_arg': raise SyntaxError('va_arg')
        raise SyntaxError('unhandled instruction %s in %s' % (op, f.name))

    def pylit_t(s, d):
        key = repr(d)
        if key not in s.tdesc_cache:
            name = 'TD%d' % len(s.tdesc_cache); s.tdesc_cache[key] = name
            s.consts.append('%s = %s' % (name, key))
        return s.tdesc_cache[key]

    def load_expr(s, t, pv):
        r = s.res(t)
        if r.k == 'int':
            n = (r.n + 7) // 8            # the *store size* of iN (i48 touches 6 bytes), not its padded allocation size
            if r.n % 8 == 0: return 'rt.ld(%s, %d)' % (pv, n)
            return 'rt.ld_bits(%s, %d, %d)' % (pv, n, r.n)
        if r.k == 'ptr': return 'rt.ld(%s, 8)' % pv
        if r.k == 'float': return 'rt.ldf32(%s)' % pv
        if r.k == 'double': return 'rt.ldf64(%s)' % pv
        return 'rt.ld_t(%s, %s)' % (pv, s.pylit_t(s.tdesc(t)))
    def store_stmt(s, t, pv, v):
        r = s.res(t)
        if r.k == 'int':
            n = (r.n + 7) // 8
            if r.n == 1: return 'rt.st(%s, 1, %s.zext(8) if %s.__class__ is S else int(%s))' % (pv, v, v, v)
            return 'rt.st(%s, %d, %s)' % (pv, n, v)
        if r.k == 'ptr': return 'rt.st(%s, 8, %s)' % (pv, v)
        if r.k == 'float': return 'rt.stf32(%s, %s)' % (pv, v)
        if r.k == 'double': return 'rt.stf64(%s, %s)' % (pv, v)
        return 'rt.st_t(%s, %s, %s)' % (pv, s.pylit_t(s.tdesc(t)), v)

    def gep_expr(s, sty, pty, base, idx):
        b = s.val(pty, base)
        const = 0; terms = []
        cur = sty
        for n, (ity, iv) in enumerate(idx):
            if n == 0: stride = s.size_align(cur)[0]; nxt = cur
            else:
                r = s.res(cur)
                if r.k == 'struct':
                    i = s.const_eval(ity, iv); const += s.field_offsets(cur)[i]; cur = r.elems[i]; continue
                stride = s.size_align(r.e)[0]; nxt = r.e
            if iv[0] != 'local':
                i = s.const_eval(ity, iv); w = s.res(ity).n
                if i >> (w - 1): i -= 1 << w
                const += i * stride
            else:
                w = s.res(ity).n; e = s.lname(iv[1])
                if w < 64:
                    sb = 1 << (w - 1)
                    e = '(%s.sext(64) if %s.__class__ is S else ((%s ^ %d) - %d))' % (e, e, e, sb, sb)
                if stride != 1: e = '%s * %d' % (e, stride)
                if stride != 0: terms.append(e)
            cur = nxt
        expr = b
        for e in terms: expr += ' + ' + e
        if const: expr += ' + %d' % const if const > 0 else ' - %d' % -const
        if terms or const: return '(%s) & %d' % (expr, (1 << 64) - 1)
        return expr

    def emit_call(s, f, bn, dst, op, p, edge, lab):
        D = s.lname(dst) if dst is not None else None
        while p.peek()[1] in FMF + ('fastcc', 'ccc', 'coldcc', 'tailcc'): p.next()
        p.skip_attrs()
        rt_ = p.type(); fty = None
        if rt_.k == 'func': fty = rt_; rt_ = fty.ret
        callee = p.value(PtrT(IntT(8)))
        p.expect('('); args = []
        if not p.accept(')'):
            while True:
                at = p.type(); attrs = p.skip_attrs()
                if at.k == 'metadata':
                    depth = 0
                    while not (depth == 0 and p.peek()[1] in (',', ')')):
                        if p.peek()[1] == '(': depth += 1
                        if p.peek()[1] == ')': depth -= 1
                        p.next()
                    args.append(None)
                else:
                    av = p.value(at); args.append((at, av, attrs))
                if p.accept(')'): break
                p.expect(',')
        nl = ul = None
        if op == 'invoke':
            p.skip_attrs(); p.expect('to'); nl = lab(); p.expect('unwind'); ul = lab()
        pre = []; cargs = []
        for i, a in enumerate(args):
            if a is None: cargs.append('None'); continue
            at, av, attrs = a; e = s.val(at, av)
            if 'byval' in attrs:
                bt = attrs['byval']; sz = s.size_align(bt)[0]; s.cur_has_byval = True
                pre.append('bv%d = rt.alloca(%d, fr); rt.memcpy(bv%d, %s, %d)' % (i, sz, i, e, sz)); e = 'bv%d' % i
            cargs.append(e)
        call = None
        if callee[0] == 'global':
            name = callee[1]
            if name.startswith('llvm.'):
                r = s.intrinsic(name, D, rt_, args, cargs)
                if r is not None:
                    lines = pre + r
                    if op == 'invoke': lines += edge(bn, nl, '')
                    return lines
            if name in s.fpy: call = '%s(%s)' % (s.fpy[name], ', '.join(cargs))
            else: raise SyntaxError('call to unknown ' + name)
        else:
            cv = s.val(PtrT(IntT(8)), callee)
            call = '(FN.get(%s) or rt.badcall(%s))(%s)' % (cv, cv, ', '.join(cargs))
        stmt = ('%s = %s' % (D, call)) if (dst is not None and rt_.k != 'void') else call
        if op == 'call': return pre + [stmt]
        lines = pre + ['try:', ' ' + stmt, 'except CxxThrow as e_:', ' exc = e_'] + edge(bn, ul, ' ')
        lines += edge(bn, nl, '')
        return lines

    def intrinsic(s, name, D, rt_, args, A):
        if re.match(r'llvm\.(lifetime|experimental\.noalias|dbg|assume|invariant|donothing|prefetch|var\.annotation)', name): return []
        if name.startswith('llvm.memcpy'): return ['rt.memcpy(%s, %s, %s)' % (A[0], A[1], A[2])]
        if name.startswith('llvm.memmove'): return ['rt.memcpy(%s, %s, %s, True)' % (A[0], A[1], A[2])]
        if name.startswith('llvm.memset'): return ['rt.memset(%s, %s, %s)' % (A[0], A[1], A[2])]
        if name.startswith('llvm.trap'): return ['rt.trap(%r)' % name]
        if name.startswith('llvm.expect'): return ['%s = %s' % (D, A[0])]
        if name.startswith('llvm.is.constant'): return ['%s = 0' % D]
        if name.startswith('llvm.objectsize'): return ['%s = %d' % (D, (1 << s.res(rt_).n) - 1)]
        m = re.match(r'llvm\.(umin|umax)\.', name)
        if m: return ['%s = rt.%s(%s, %s)' % (D, m.group(1), A[0], A[1])]
        m = re.match(r'llvm\.(smin|smax)\.i(\d+)', name)
        if m: return ['%s = rt.%s(%s, %s, %s)' % (D, m.group(1), A[0], A[1], m.group(2))]
        m = re.match(r'llvm\.(fabs|sqrt|floor|ceil|round|trunc|rint|nearbyint)\.(f32|f64)', name)
        if m: return ['%s = rt.fround(%r, %s, %d)' % (D, m.group(1), A[0], 32 if m.group(2) == 'f32' else 64)]
        m = re.match(r'llvm\.(minnum|maxnum|copysign|pow)\.(f32|f64)', name)
        if m: return ['%s = rt.fbin(%r, %s, %s, %d)' % (D, m.group(1), A[0], A[1], 32 if m.group(2) == 'f32' else 64)]
        m = re.match(r'llvm\.fmuladd\.(f32|f64)', name)
        if m:
            if m.group(1) == 'f32': return ['%s = rt.r32(rt.r32(%s * %s) + %s)' % (D, A[0], A[1], A[2])]
            return ['%s = %s * %s + %s' % (D, A[0], A[1], A[2])]
        m = re.match(r'llvm\.abs\.i(\d+)', name)
        if m: return ['%s = rt.iabs(%s, %s)' % (D, A[0], m.group(1))]
        m = re.match(r'llvm\.(ctlz|cttz|ctpop|bswap)\.i(\d+)', name)
        if m: return ['%s = rt.%s(%s, %s)' % (D, m.group(1), A[0], m.group(2))]
        m = re.match(r'llvm\.(u|s)(add|sub|mul)\.with\.overflow\.i(\d+)', name)
        if m: return ['%s = rt.with_overflow(%r, %r, %s, %s, %s)' % (D, m.group(1), m.group(2), A[0], A[1], m.group(3))]
        m = re.match(r'llvm\.usub\.sat\.i(\d+)', name)
        if m: return ['%s = rt.usub_sat(%s, %s, %s)' % (D, A[0], A[1], m.group(1))]
        m = re.match(r'llvm\.uadd\.sat\.i(\d+)', name)
        if m: return ['%s = rt.uadd_sat(%s, %s, %s)' % (D, A[0], A[1], m.group(1))]
        if name.startswith('llvm.eh.typeid.for'): return ['%s = rt.typeid_for(%s)' % (D, A[0])]
        if name.startswith('llvm.stacksave'): return ['%s = 0' % D]
        if name.startswith('llvm.stackrestore'): return []
        if name.startswith('llvm.va_'): return ['rt.va_unsupported(%r)' % name]
        if name.startswith('llvm.load.relative'): return ['%s = rt.load_relative(%s, %s)' % (D, A[0], A[1])]
        raise SyntaxError('intrinsic ' + name)

    # ---------------------------------------------------------------- module emission
    def run(s, roots=None, stub=()):
        mod = s.mod
        seen = set(); gseen = set(); fn_py = {}
        work = [('f', n) for n in (roots if roots else [n for n, f in mod.funcs.items() if f.defined])]
        if 'llvm.global_ctors' in mod.globals: work.append(('g', 'llvm.global_ctors'))
        def refs(v, acc):
            if isinstance(v, tuple):
                if v and v[0] == 'global': acc.add(v[1])
                for x in v: refs(x, acc)
            elif isinstance(v, list):
                for x in v: refs(x, acc)
        def note(g):
            g = getattr(s, 'alias_fn', {}).get(g, g)
            if g in mod.funcs: work.append(('f', g))
            elif g in mod.globals: work.append(('g', g))
        while work:
            kind, n = work.pop()
            if kind == 'f':
                if n in seen: continue
                seen.add(n)
                f = mod.funcs.get(n)
                if f is None or not f.defined or n in stub: continue
                fn_py[n] = s.emit_func(f)
                for bn, il in f.blocks:
                    for toks in il:
                        for k, v in toks:
                            if k in ('glob', 'gq'):
                                g = v[1:]; g = g[1:-1] if g.startswith('"') else g
                                note(g)
            else:
                if n in gseen: continue
                gseen.add(n)
                gi = mod.globals[n]
                acc = set(); refs(gi.get('init'), acc); refs(gi.get('alias'), acc)
                for r in acc: note(r)
        out = ['# generated by ll2py.py', 'import symrt as rt', 'from symrt import S, SF, CxxThrow, STEP', 'from math import inf as INF, nan as NAN', 'LIM = rt.LIM', 'FN = rt.FN', '']
        body = [fn_py[n] for n in fn_py]
        out += s.consts
        out += body
        # externals and tables
        out.append('')
        out.append('DEFINED = {')
        for n in fn_py: out.append('  %r: (%d, %s),' % (n, s.faddr[n], s.fpy[n]))
        out.append('}')
        ext = [n for n in sorted(seen) if n not in fn_py and not n.startswith('llvm.')]
        out.append('EXTERNAL = {')
        for n in ext: out.append('  %r: (%d, %r),' % (n, s.faddr[n], s.fpy[n]))
        out.append('}')
        out.append('for _n, (_a, _py) in EXTERNAL.items(): globals()[_py] = rt.resolve_external(_n)')
        out.append('for _n, (_a, _f) in DEFINED.items(): FN[_a] = _f')
        out.append('for _n, (_a, _py) in EXTERNAL.items(): FN[_a] = globals()[_py]')
        out.append('NAMES = {n: f for n, (a, f) in DEFINED.items()}')
        out.append('FADDR = {n: a for n, (a, f) in DEFINED.items()}; FADDR.update({n: a for n, (a, p) in EXTERNAL.items()})')
        # globals
        out.append('GLOBALS = {}')
        out.append('def init_globals():')
        out.append('    G = rt.make_global')
        for g in [n for k, n in mod.order if k == 'g' and n in gseen]:
            gi = mod.globals[g]
            if gi.get('alias') is not None:
                continue
            sz = s.size_align(gi['ty'])[0]
            if gi['init'] is None:
                out.append('    GLOBALS[%r] = G(%d, %d, None, %r, False)' % (g, s.gaddr[g] >> 32, max(sz, 8), g))
            else:
                buf = bytearray(sz)
                s.init_bytes(gi['ty'], gi['init'], buf, 0)
                if any(buf): lit = repr(bytes(buf))
                else: lit = 'None'
                out.append('    GLOBALS[%r] = G(%d, %d, %s, %r, %s)' % (g, s.gaddr[g] >> 32, sz, lit, g, gi['const']))
        out.append('    return GLOBALS')
        ctors = []
        if 'llvm.global_ctors' in mod.globals and mod.globals['llvm.global_ctors']['init'] is not None:
            init = mod.globals['llvm.global_ctors']['init']
            if init[0] == 'carray':
                for et, ev in init[1]:
                    prio = ev[1][0][1][1]; fn = ev[1][1][1]
                    if fn[0] == 'global': ctors.append((prio, fn[1]))
        ctors.sort(key=lambda x: x[0])
        out.append('CTORS = [%s]' % ', '.join(s.fpy[n] for _, n in ctors if n in fn_py))
        out.append('CTOR_NAMES = %r' % [n for _, n in ctors])
        return '\n'.join(out) + '\n'

if __name__ == '__main__':
    import argparse
    ap = argparse.ArgumentParser()
    ap.add_argument('ll'); ap.add_argument('-o', default='-'); ap.add_argument('--root', action='append', default=[]); ap.add_argument('--stub', action='append', default=[])
    ap.add_argument('--no-checks', action='store_true')
    a = ap.parse_args()
    mod = parse_module(open(a.ll).read())
    g = Gen(mod, check_ub=not a.no_checks)
    src = g.run(a.root or None, set(a.stub))
    (sys.stdout if a.o == '-' else open(a.o, 'w')).write(src)
