"""C05 — operand stack is partitioned per scope; a scope yields exactly one value.
(1) stack.diff: differential obligation (real VM vs reference) on stack-hostile programs: early exits, breakOut, throw and caught errors
    inside half-built arrays / pending binary operands, blocks yielding no value.
(2) stack.mon: monitor obligation: the same programs and the C02 constructs are single-stepped through runtime::execute(assembly_step);
    after every instruction the frame bases must be monotone and within the stack, the operands below a live frame's base must be
    bit-identical to what they were when the frame was entered, and a traced program point inside a loop must always see the same stack height."""
import itertools
import symrt as rt, vmh, diffvm, sqfref, oblig
from diffvm import Prog
from C02 import G, N, T, CONSTRUCTS, build as c02_build
import C04

V = lambda n: ('var', n)
E = lambda k: ('err', k)
def B(op, l, r): return ('bin', op, l, r)
def CALL(stmts): return ('call', None, ('code', stmts))

def hostile(tier):
    P = {}
    def add(name, fn):
        g = G(); P[name] = Prog(fn(g), g.f, g.b)
    add('arr.exitwith', lambda g: [T(('arr', [N(1), CALL([('exitwith', g.hb(), [N(5)]), N(6)]), N(3)]))])
    add('arr.exitwith.novalue', lambda g: [T(('arr', [N(1), CALL([('exitwith', g.hb(), []), N(6)]), N(3)]))])
    add('arr.exitwith.loop', lambda g: [T(('arr', [N(1), ('foreach', [('exitwith', B('==', V('_x'), g.hf([1, 2, 3])), [N(50)]), V('_x')], ('arr', [N(1), N(2)])), N(3)]))])
    add('arr.nested.exit', lambda g: [T(('arr', [N(1), ('arr', [N(2), CALL([B('+', N(10), CALL([('exitwith', g.hb(), [N(7)]), N(8)]))])]), N(3)]))])
    add('bin.breakout', lambda g: [T(('arr', [N(1), CALL([('scopename', b's'), B('+', N(2), CALL([B('+', N(3), CALL([('if', g.hb(), [('breakout', b's', N(9))], None), N(4)]))]))]), N(5)]))])
    add('bin.breakout.novalue', lambda g: [T(('arr', [N(1), CALL([('scopename', b's'), B('+', N(2), CALL([('if', g.hb(), [('breakout', b's', None)], None), N(4)])), N(7)]), N(5)]))])
    add('arr.throw', lambda g: [T(('arr', [N(1), ('try', [('arr', [N(2), CALL([('arr', [N(3), CALL([('if', g.hb(), [('throw', N(5))], None), N(4)])])])])], [V('_exception')]), N(6)]))])
    add('arr.throw.loop', lambda g: [T(('arr', [N(1), ('try', [('foreach', [B('+', N(10), CALL([('if', B('==', V('_x'), g.hf([1, 2, 3])), [('throw', V('_x'))], None), V('_x')]))], ('arr', [N(1), N(2)]))], [B('+', V('_exception'), N(100))]), N(6)]))])
    for k in (0, 2):
        add('arr.err.e%d' % k, lambda g, k=k: [T(('arr', [N(1), ('except', [B('+', N(10), CALL([B('+', N(20), CALL([('if', g.hb(), [E(k)], None), N(30)]))]))], [N(7)]), N(3)]))])
        add('arr.err.novalue.e%d' % k, lambda g, k=k: [T(('arr', [N(1), ('except', [B('+', N(10), CALL([B('+', N(20), CALL([('if', g.hb(), [E(k)], None), N(30)]))]))], []), N(3)]))])
        add('arr.err.assign.e%d' % k, lambda g, k=k: [T(('arr', [N(1), ('except', [B('+', N(10), CALL([B('+', N(20), CALL([E(k), N(30)]))]))], [('assign', '_le', N(1))]), N(3)])), T(V('_le'))])
        add('arr.err.inarr.e%d' % k, lambda g, k=k: [T(('arr', [N(1), ('except', [('arr', [N(11), ('arr', [N(12), CALL([('arr', [N(13), E(k)])])])])], []), N(3)]))])
        add('arr.err.loop.e%d' % k, lambda g, k=k: [T(('arr', [N(1), ('except', [('foreach', [B('+', N(10), CALL([('if', B('==', V('_x'), g.hf([1, 2, 3])), [E(k)], None), V('_x')]))], ('arr', [N(1), N(2)]))], []), N(3)]))])
    # a throw / an error inside a handler belongs to the next enclosing handler (and the handler never re-enters itself)
    add('throw.in.catch', lambda g: [T(('arr', [N(1), ('try', [('try', [('if', g.hb(), [('throw', g.hf([1, 2]))], None), N(3)], [('throw', B('+', V('_exception'), N(10)))])], [B('*', V('_exception'), N(2))]), N(6)]))])
    add('throw.in.catch.deep', lambda g: [T(('arr', [N(1), ('try', [B('+', N(100), CALL([('try', [('throw', N(4))], [('arr', [N(7), CALL([('if', g.hb(), [('throw', N(5))], None), N(8)])])])]))], [V('_exception')]), N(6)]))])
    add('novalue.blocks', lambda g: [T(('arr', [CALL([]), CALL([('assign', '_q', N(1))]), ('if', g.hb(), [], [('private', '_r', N(2))]), ('foreach', [], ('arr', [N(1)])), N(9)]))])
    add('loop.accum.for', lambda g: [('for', '_i', N(0), g.hf([0, 1, 2, 3]), None, [('arr', [N(1), N(2), CALL([N(3)])]), T(N(1001)), B('+', N(1), N(2))]), T(N(1002))])
    add('loop.accum.while', lambda g: [('private', '_i', N(0)), ('while', [B('<', V('_i'), g.hf([0, 1, 2, 3]))], [('arr', [V('_i'), CALL([('exitwith', ('bool', False), [N(1)]), N(3)])]), T(N(1003)), ('assign', '_i', B('+', V('_i'), N(1)))]), T(N(1004))])
    add('loop.accum.foreach.exit', lambda g: [T(('arr', [N(1), ('foreach', [T(N(1005)), ('arr', [N(5), CALL([('exitwith', B('==', V('_x'), g.hf([1, 2, 3, 4])), [N(70)]), N(6)])])], ('arr', [N(1), N(2), N(3)])), N(2)]))])
    add('switch.pending', lambda g: [T(('arr', [N(1), B('+', N(10), ('switch', g.hf([0, 1, 2]), [('case', N(0), [N(100)]), B('+', N(5), N(6)), ('case', N(1), [N(200)]), ('default', [N(300)])])), N(3)]))])
    add('lazy.pending', lambda g: [T(('arr', [N(1), ('lazy', 'and', g.hb(), [('arr', [N(5), N(6)]), g.hb()]), ('lazy', 'or', g.hb(), [g.hb()]), N(3)]))])
    add('count.pending', lambda g: [T(('arr', [N(1), B('+', N(10), ('countc', [('arr', [V('_x'), V('_x')]), B('>', V('_x'), g.hf([0, 1, 2]))], ('arr', [N(1), N(2)]))), N(3)]))])
    return P

class Monitor:
    """single-step executor with invariant checks; obs: list of (frames, values) at trace points"""
    def __init__(s, h, vm): s.h = h; s.vm = vm; s.N = h.N; s.snap = {}; s.prev = None; s.nsteps = 0; s.trace_pts = {}
    def ctx(s):
        N, vm = s.N, s.vm
        if N['w_vm_context_count'](vm) == 0: return None
        vs = N['w_ctx_values_size'](vm, 0); fs = N['w_ctx_frames_size'](vm, 0)
        bases = [N['w_ctx_frame_vsp'](vm, 0, fs - 1 - d) for d in range(fs)]     # bottom .. top
        return vs, fs, bases
    def ptrs(s, n):
        return [s.N['w_val_dataptr'](s.N['w_ctx_value_at'](s.vm, 0, k)) for k in range(n)]
    def check(s):
        c = s.ctx()
        if c is None: s.prev = None; s.snap = {}; return
        vs, fs, bases = c
        for d in range(fs):
            if bases[d] > vs: rt.record_violation('assert', 'frame base %d above the operand stack height %d (frame depth %d) after step %d' % (bases[d], vs, d, s.nsteps)); return
            if d and bases[d] < bases[d - 1]: rt.record_violation('assert', 'frame bases not monotone: %r after step %d' % (bases, s.nsteps)); return
        # below-base immutability for frames that persist (same depth, same base as in the previous step)
        newsnap = {}
        for d in range(fs):
            key = (d, bases[d])
            cur = s.ptrs(bases[d]) if bases[d] else []
            if s.prev is not None and d < s.prev[1] and s.prev[2][d] == bases[d] and key in s.snap:
                if s.snap[key] != cur:
                    rt.record_violation('assert', 'operands below the base of the live frame at depth %d changed during step %d (enclosing expression operands were consumed or overwritten)' % (d, s.nsteps)); return
                newsnap[key] = s.snap[key]
            else:
                newsnap[key] = cur
        s.snap = newsnap; s.prev = (vs, fs, bases)
    def run(s, limit=6000):
        s.check()
        while True:
            r = s.h.execute(s.vm, 4)
            s.nsteps += 1
            if rt.PS.violations: return r
            st = s.h.state(s.vm)
            s.check()
            if rt.PS.violations: return r
            if st == 0 or st == 3 or r not in (0,): return r
            if s.nsteps > limit: rt.end_path('budget', 'monitor step limit')

def mon_case(h, p):
    def case():
        h.reset_obs()
        vm = h.new_vm()
        hf, hb = diffvm.make_holes(p, h)
        text = p.text()
        buf = rt.make_bytes(text.encode('latin1'), 'input', 'sqf source')
        if vmh.s32(h.N['w_vm_push_code'](vm, buf, len(text), 0)) != 0:
            rt.record_violation('assert', 'program does not parse: ' + text[:200]); return dict(text=text)
        m = Monitor(h, vm)
        # stack height at traced program points (ids >= 1000 are inside loops): must not grow from one iteration to the next
        seen = {}
        orig = rt.EXT['verif_trace']
        def tr(vmp, vptr):
            orig(vmp, vptr)
            v = h.traces[-1]
            if isinstance(v, list) and len(v) == 1 and isinstance(v[0], float) and v[0] >= 1000:
                c = m.ctx()
                if c is not None:
                    k = v[0]
                    # the first iteration may hold the nil placeholder of the operator that opened the loop frame; later ones must not be higher
                    if k in seen and (c[0] > seen[k][0] or c[1] != seen[k][1]): rt.record_violation('assert', 'stack height at loop program point %d grew between iterations: (values, frames) %r then %r' % (int(k), seen[k], (c[0], c[1])))
                    seen[k] = (min(c[0], seen[k][0]) if k in seen else c[0], c[1])
        rt.EXT['verif_trace'] = tr
        try: m.run()
        finally: rt.EXT['verif_trace'] = orig
        return dict(text=text, ntrace=len(h.traces), steps=m.nsteps)
    return case

def replay(spec):
    import vmreplay
    return vmreplay.replay(spec)

def run(ctx):
    h = vmh.load()
    obs = []
    host = hostile(ctx['tier'])
    ob = diffvm.run_obligation('stack.diff', host, ctx, h, '%d stack-hostile programs (early exit / breakOut / throw / caught runtime error inside half-built arrays and pending binary operands, blocks yielding no value, loops), booleans symbolic, selectors in small sets' % len(host), case_timeout=600, expect_no_errors=False)
    if ob: obs.append(ob)
    progs = dict(host)
    for n in CONSTRUCTS:
        progs['c02.' + n] = c02_build([n], 'exit')
    if ctx['tier'] == 'thorough':
        for a, b in itertools.product(CONSTRUCTS, CONSTRUCTS): progs['c02.%s>%s' % (a, b)] = c02_build([a, b], 'none')
    for k in (0,):
        g0 = G()
        for sname in C04.sites(g0, E(k)):
            for hk in ('except', 'nested', 'deep'):
                g = G(); progs['c04.%s.%s' % (sname, hk)] = Prog(C04.handlers(g, C04.sites(g, E(k))[sname](), hk), g.f, g.b)
    funcs = sorted(n for n in h.m.DEFINED if ('context' in n or 'frame' in n or 'runtime7runtime' in n or 'opcodes' in n) and len(n) < 120)
    r = oblig.run('stack.mon', [(cid, mon_case(h, p)) for cid, p in progs.items()], ctx, funcs,
                  '%d programs single-stepped with runtime::execute(assembly_step); invariants checked after every instruction (<= 6000 steps per path)' % len(progs),
                  assumptions=['allocation failure is out of scope', 'observation through public accessors only (context::values_size, frames_rbegin, frame::value_stack_pos, values_begin)'], case_timeout=600,
                  keyfn=lambda cid, v, rr: 'stack.mon:%s:%s' % (cid, v.get('kind')), replayfn=None, step_limit=60_000_000,
                  sample_fn=lambda rr: dict(program=rr.get('text', '')[:300], steps=rr.get('steps')) if rr.get('text') else None)
    if r:
        ob, recs = r
        for v in ob['violations']: v['trust_without_replay'] = True
        oblig.witness_check(ob, recs, lambda rr: rr['verdict'] == 'ok' and (rr.get('steps') or 0) > 5, 'a path stepped to completion')
        obs.append(ob)
    return obs
