"""C09 — every implemented operator is total and memory-safe on type-correct arguments.
The operator registry is dumped natively from the real registration functions. Every implemented signature (kind, name, left type, right type)
is called in the real VM (engine E2) with arguments from per-type pools: scalars are *unconstrained symbolic floats* (NaN, infinities, negative,
fractional and huge values included; the solver decides every branch and every float->integer conversion for all of them), booleans are symbolic,
arrays carry symbolic elements next to boundary shapes (empty, wrong element types / arity, 300 elements, >16 tied sort keys, nested), strings /
code / configs / objects / groups / handles come from boundary pools. A path is a violation if the engine sees an out-of-bounds or invalid access,
undefined behaviour (float->int out of range, signed overflow), an escaping C++ exception, abort, an allocation beyond the heap budget or the
step budget running out; each is replayed on a native ASan+UBSan build before it is reported.
The ~2500 "NOT IMPLEMENTED" table entries (ops_dummy_*.cpp) are covered by dummy.ir: all their lambdas are shown identical up to the
name constant on the LLVM IR, and one representative per equivalence class is executed."""
import os, re, z3, math, hashlib
import symrt as rt, vmh, oblig, native, loader
from symrt import S, SF
import C01

ARMA_SRC = ['operators/ops_object.cpp', 'operators/ops_group.cpp', 'operators/ops_markers.cpp', 'operators/ops_osspecific.cpp', 'operators/object.cpp', 'operators/group.cpp']
ALLOPS = 16383; DUMMYOPS = 16384
GEN = os.path.join(loader.WORK, 'gen')
def load(rep_files=()):
    return vmh.load(extra_sources=ARMA_SRC + list(rep_files), name='vmx', flags=['-DW_VM_ARMA_OPS', '-DW_VM_DUMMY_OPS', '-I' + os.path.join(loader.REPO, 'src', 'operators')])

# ---------------------------------------------------------------- the NOT IMPLEMENTED tables: equivalence classes on the IR, representatives as truncated real source
def _norm(b):
    b = re.sub(r'\d+\$_\d+', 'L$_N', b); b = re.sub(r'\$_\d+', '$_N', b)
    b = re.sub(r'%class\.anon(\.\d+)?', '%class.anon', b); b = re.sub(r'@\.str(\.\d+)?', '@STR', b); b = re.sub(r'\[\d+ x i8\]', '[N x i8]', b)
    return b
def dummy_tables():
    """for each ops_dummy_*.cpp: compile the real file (-O0, so that no string constant is folded into code), group the lambda functions by their
    normalised bodies (lambda ordinal, anonymous class number, string-constant name and length abstracted), and write a copy of the file that keeps one
    registration line per equivalence class. returns (facts, rep_files, rep_ops)"""
    os.makedirs(GEN, exist_ok=True)
    facts = {}; files = []; reps = []
    for kind in ('nular', 'unary', 'binary'):
        path = os.path.join(loader.REPO, 'src', 'operators', 'ops_dummy_%s.cpp' % kind)
        ll = loader.compile_ll(path, ('-O0',))
        ir = open(ll).read()
        funcs = re.findall(r'^define [^\n]*?@"?([^"\s(]+)"?\(([^\n]*)\{\n(.*?)^\}', ir, re.M | re.S)
        per = {}     # ordinal -> {role: hash}
        for n, a, b in funcs:
            m = re.search(r'ops_dummy_\w+?ERNS_7runtime7runtimeEEN?K?(\d+)\$_(\w+)$', n)
            if not m: continue
            nd = int(m.group(1)) - 2                       # '<len>$_<ordinal>': the length prefix tells how many digits belong to the ordinal
            ordinal, rest = int(m.group(2)[:nd]), m.group(2)[nd:]
            role = 'call' if rest.startswith('cl') else 'invoke' if '__invoke' in rest else 'conv'
            per.setdefault(ordinal, {})[role] = hashlib.sha1(_norm(a + b).encode()).hexdigest()[:12]
        classes = {}
        for k, roles in per.items(): classes.setdefault(tuple(sorted(roles.items())), []).append(k)
        lines = open(path, encoding='latin1').read().split('\n')
        reg = [i for i, l in enumerate(lines) if 'register_sqfop(' in l and not l.strip().startswith('//')]
        nlam = sum(l.count('[](') for l in lines if not l.strip().startswith('//'))
        ok = len(reg) == nlam == len(per) and all(lines[i].count('[](') == 1 for i in reg)
        facts[kind] = dict(registrations=len(reg), lambdas_in_ir=len(per), classes=sorted(len(v) for v in classes.values()), one_lambda_per_line=ok)
        keep = sorted(min(v) for v in classes.values()) if ok else list(range(len(reg)))
        first = reg[0]
        out = lines[:first] + [lines[reg[k]] for k in keep] + ['}', '']
        gp = os.path.join(GEN, 'ops_dummy_%s_rep.cpp' % kind)
        txt = '\n'.join(out)
        if not os.path.exists(gp) or open(gp, encoding='latin1').read() != txt: open(gp, 'w', encoding='latin1').write(txt)
        files.append(gp)
        for k in keep:
            m = re.search(r'(nular|unary|binary)\((?:\d+, )?"([^"]+)"', lines[reg[k]])
            reps.append((kind, m.group(2), len([c for c in classes.values() if min(c) == k][0]) if ok else 1))
    return facts, files, reps

def registry(mode):
    import glob
    srcs = [f for f in glob.glob(loader.REPO + '/src/**/*.cpp', recursive=True) + glob.glob(loader.REPO + '/src/**/*.cc', recursive=True) if '/cli/' not in f and '/unused/' not in f and '/sqc/' not in f and '/export/' not in f]
    exe = native.build('opsdump', sorted(srcs) + ['/verif/harness/opsdump.cpp'], sanitize=False)
    rc, out, err = native.run(exe, [mode] if mode else [], timeout=120)
    sigs = []
    for l in out.split('\n'):
        f = l.split('\t')
        if len(f) >= 5 and f[0] in 'BUN': sigs.append((f[0], f[1], f[3], f[4]))
    return sorted(set(sigs))

# ---------------------------------------------------------------- argument pools (SQF expression texts; c9_* are set by PRELUDE)
CONFIG = 'class A { v = 1; s = "x"; arr[] = {1, {2, "y"}}; class N { w = 2; }; };\nclass B : A { delete v; arr[] += {3}; class M : N { }; };\n'
PRELUDE = ('c9_long = ""; for "_i" from 1 to 8 do { c9_long = c9_long + "abcdefghijklmnopqrstuvwxyz0123456789%1%2" }; '
           'c9_big = []; for "_i" from 1 to 300 do { c9_big pushBack _i }; '
           'c9_ties = []; c9_ties_s = []; c9_ties_a = []; for "_i" from 1 to 20 do { c9_ties pushBack 1; c9_ties_s pushBack "a"; c9_ties_a pushBack [1, "x"] }; c9_ties set [7, 0]; c9_ties_a set [3, [0, "y"]]; '
           'c9_hm = createHashMapFromArray [[1, "a"], ["k", [1, 2]], [[1, 2], 3]]; '
           'c9_grp = createGroup west; c9_grp0 = createGroup east; c9_obj = "Car" createVehicle [1, 2, 3]; c9_unit = "Man" createUnit [[0, 0, 0], c9_grp]; '
           'c9_script = [] spawn { }; createMarker ["c9_m", c9_obj]; createMarker ["c9_m2", [3, 4]]; c9_n = 0; c9_v = 5; c9_code = { 1 };')
FILES = {b'/p/one.sqf': b'1', b'/p/two.sqf': b'1;', b'/p/empty.sqf': b'', b'/p/bom.sqf': b'\xef\xbb\xbf', b'/p/bom2.sqf': b'\xef\xbb', b'/p/ok.sqf': b'c9_v = 6; 7', b'/p/inc.sqf': b'#include "ok.sqf"\n#define X 1\nX'}
POOL = {
    'SCALAR': ['hf0__', 'hf1__'],
    'NaN': ['hf0__'],
    'BOOL': ['hb0__', 'hb1__'],
    'STRING': ['""', '"a"', '"abc"', '"%1 %2 %3"', '"%99999999999"', '"%"', '"%0"', '"1.5e3"', '"c9_v"', '"A"', 'c9_long', '"a""b"', '"c9_m"', '" x "', '"_p"', '"1 + 1"', '"{"', '"west"'],
    'ARRAY': ['[]', '[hf0__]', '[hf0__, hf1__]', '[hf0__, hf1__, hf2__]', '[1, 2, 3]', '["a", "b", "a"]', '[[1, 2], [3, 4]]', '[nil]', '[1, "a", true, [], { }]', 'c9_big', 'c9_ties', 'c9_ties_s', 'c9_ties_a',
              '["_a", "_b"]', '[[hf0__, "k"], [hf1__, "l"]]', '["a", [hf0__]]', '[c9_obj, c9_unit]', '["c9_m", [hf0__, hf1__]]', '[[[]]]', '[hb0__, hf0__]', '["_a", ["_b", hf0__, [0], hf1__]]', '[[1, 2, 3], [4, 5, 6], [7, 8, 9]]', '[[1, 2], [3]]',
              '["%1 %2", hf0__, "x"]', '["Man", [0, 0, 0], [], hf0__, "NONE"]', '[missionNamespace, "c9_v"]', '["c9_v", hf0__]', '[configFile >> "A", "true", hb0__]', '[objNull]', '[hf0__, 2e9]'],
    'CODE': ['{ }', '{ true }', '{ false }', '{ 1 }', '{ nil }', '{ _x }', '{ throw "e" }', '{ [1, 2] }', '{ _this }', '{ hb0__ }', '{ c9_n = c9_n + 1; c9_n > 2 }'],
    'CONFIG': ['configNull', 'configFile', '(configFile >> "A")', '(configFile >> "A" >> "v")', '(configFile >> "B")', '(configFile >> "A" >> "arr")', '(configFile >> "B" >> "M")'],
    'OBJECT': ['objNull', 'c9_obj', 'c9_unit'],
    'GROUP': ['grpNull', 'c9_grp', 'c9_grp0'],
    'SIDE': ['west', 'civilian', 'sideUnknown'],
    'NAMESPACE': ['missionNamespace', 'uiNamespace', 'parsingNamespace'],
    'HASHMAP': ['createHashMap', 'c9_hm'],
    'TEXT': ['(text "x")', 'lineBreak', '(text "")'],
    'SCRIPT': ['scriptNull', 'c9_script', '([] spawn { uiSleep 1 })'],
    'IF': ['(if hb0__)'],
    'FOR': ['(for "_i")', '(for "_i" from hf0__)', '(for "_i" from 0 to hf0__)', '(for "_i" from hf0__ to 2 step -1)', '(for "_i" from 1 to 3 step hf0__)', '(for "")'],
    'WHILE': ['(while { false })', '(while { c9_n = c9_n + 1; c9_n < 3 })', '(while { nil })', '(while { 1 })'],
    'SWITCH': ['(switch (1))', '(switch (nil))', '(switch ("a"))'],
    'WITH': ['(with missionNamespace)'],
    'EXCEPTION': ['(try { 1 })', '(try { throw 1 })', '(try { })'],
    'LOCATION': [], 'DISPLAY': [], 'CONTROL': [],
}
POOL['ANY'] = ['nil', 'hf0__', '"a"', '[1]', '{ }', 'hb0__', 'objNull', 'configNull', 'c9_hm', 'missionNamespace', '[hf0__, [hf1__]]', 'c9_obj', 'c9_grp', 'west', '""', '[]', 'c9_big', 'scriptNull', '(text "x")']
FILE_STRINGS = ['"one.sqf"', '"two.sqf"', '"empty.sqf"', '"bom.sqf"', '"bom2.sqf"', '"ok.sqf"', '"inc.sqf"', '"missing.sqf"', '"/p/one.sqf"', '""']
FILE_OPS = {'loadfile', 'preprocessfile', 'preprocessfilelinenumbers', 'execvm', 'allfiles__'}
# operators outside the claim, with the reason
SKIP = {'exit__': 'terminates the VM by design', 'exitcode__': 'terminates the VM by design', 'callextension': 'FFI (dlopen) is not modelled', 'copytoclipboard': 'disabled in the build (DISABLE_CLIPBOARD)',
        'vmctrl__': 'controls the VM by design', 'halt': 'halts the VM by design', 'allfiles__': 'recursive directory iteration is not part of the file system model'}
SF_POOL = [0.0, 1.0, -1.5, 2.0, 1e7, 16777216.0, 3e9, 1e38, math.inf, -math.inf, math.nan]

def right_variant(e):
    """the right operand uses the second set of holes where the left one uses the first, so that both sides vary independently"""
    return e.replace('hf0__', 'hf3__').replace('hf1__', 'hf4__').replace('hf2__', 'hf5__').replace('hb0__', 'hb2__').replace('hb1__', 'hb3__')

# waitUntil waits (forever, by design) for a condition that never yields true: only conditions that do are in the claim
POOL_OVERRIDE = {('U', 'waituntil', 'CODE'): ['{ true }', '{ c9_n = c9_n + 1; c9_n > 2 }'],
                 ('U', 'vectornormalized', 'ARRAY'): ['[]', '[hf0__]', '[hf0__, hf1__]', '[hf0__, hf1__, hf2__]', '[hf0__, 3, 4]', '[0, 0, 0]', '[1, 2, 3]', '["a", 1, 2]', '[1, 2, 3, 4]', 'c9_big', '[nil]']}
def combos(sig, tier):
    kind, name, lt, rtp = sig
    if kind == 'N': return [(None, None)]
    R = list(POOL_OVERRIDE.get((kind, name, rtp)) or POOL.get(rtp, []))
    if name in FILE_OPS and rtp == 'STRING': R = FILE_STRINGS
    if rtp in ('SCALAR', 'BOOL', 'NaN'): R = R[:1]
    if kind == 'U': return [(None, r) for r in R]
    L = list(POOL.get(lt, []))
    if lt in ('SCALAR', 'BOOL', 'NaN'): L = L[:1]
    R = [right_variant(r) for r in R]
    cap = 36 if tier == 'quick' else 400
    if len(L) * len(R) <= cap: return [(l, r) for l in L for r in R]
    # every left value with k right values (rotating), every right value at least once
    out = []; k = max(1, cap // len(L))
    for i, l in enumerate(L):
        for j in range(k): out.append((l, R[(i * k + j) % len(R)]))
    seen = {r for _, r in out}
    for j, r in enumerate(R):
        if r not in seen: out.append((L[j % len(L)], r))
    return out

def program(sig, l, r):
    kind, name, lt, rtp = sig
    if kind == 'N': return 'private _r = [%s]; trace__ 1;' % name
    if kind == 'U': return 'private _r = [%s (%s)]; trace__ 1;' % (name, r)
    return 'private _r = [(%s) %s (%s)]; trace__ 1;' % (l, name, r)

# sqrt(x*x + ...) == 0 in double precision does not come back from z3's FP solver within the query timeout: components range over a boundary pool
POOLED_OPS = {'vectornormalized': [0.0, 1.0, -2.5, 1e-30, 1e20, 3e38, math.inf, -math.inf, math.nan]}
FOR_BOUNDS = [-1.0, 0.0, 0.5, 2.0, 3.0, math.nan]; FOR_STEPS = [-1.0, 0.5, 2.0, 1e30, math.nan]     # step 0 and an infinite end loop forever by design
def mk_holes(h, text, pooled=None):
    hf = {}; hb = {}
    for i in range(6):
        if 'hf%d__' % i not in text: continue
        x = rt.fresh_f32('hf%d' % i)
        if pooled and i in pooled:
            # loop bounds / steps: the counter arithmetic on a free float stalls z3's FP solver (chained fp.add), so these holes range over a boundary pool
            for c in pooled[i]:
                cond = z3.fpIsNaN(x.e) if c != c else z3.And(z3.fpEQ(x.e, z3.FPVal(c, rt.F32)), z3.Not(z3.fpIsNaN(x.e)), z3.Not(z3.And(z3.fpIsZero(x.e), z3.fpIsNegative(x.e))))
                if rt.branch(cond): x = c; break
            else: rt.end_path('pruned', 'outside the loop bound pool')
        hf[i] = x
    for i in range(4):
        if 'hb%d__' % i in text: hb[i] = rt.fresh_bool('hb%d' % i)
    h.holes_f = hf; h.holes_b = hb

def sig_case(h, vm, sig, cs):
    def case():
        i = C01.choose('combo', len(cs)) if len(cs) > 1 else 0
        l, r = cs[i]
        text = program(sig, l, r)
        pooled = {i: (FOR_STEPS if 'step hf%d__' % i in l else FOR_BOUNDS) for i in range(3)} if sig[2] == 'FOR' and sig[1] == 'do' else None
        if sig[1] in POOLED_OPS: pooled = {i: POOLED_OPS[sig[1]] for i in range(6)}
        mk_holes(h, text, pooled); rt.PS.cut_base = rt.PS.nbranch
        h.reset_obs(); rt.STEP[0] = 0
        res = h.run(vm, text)
        # the VM must stay usable afterwards
        st = h.state(vm)
        return dict(text=text, res=res, nerr=len(h.errors()), traced=len(h.traces), combo=i)
    return case

def _holes_args(inp):
    out = []
    for k, v in (inp or {}).items():
        m = re.match(r'hf(\d)$', k)
        if m: out.append('f%s=%08x' % (m.group(1), v['f32bits'] if isinstance(v, dict) else 0))
        m = re.match(r'hb(\d)$', k)
        if m: out.append('b%s=%d' % (m.group(1), 1 if v else 0))
    return out

def replay(spec):
    """native ASan+UBSan build with the complete registry: prelude + the call; reproduced iff it crashes, reports UB, lets an exception escape or hangs"""
    if spec.get('kind') == 'dummy': return None, 'no native replay'
    exe = native.build('replay_vmx', vmh.VM_SOURCES + ARMA_SRC + ['/verif/harness/replay_vm.cpp'], flags=['-DW_VM_ARMA_OPS'])
    import tempfile, shutil
    d = tempfile.mkdtemp(prefix='c09_')
    try:
        for pth, data in FILES.items():
            open(os.path.join(d, os.path.basename(pth.decode())), 'wb').write(data)
        args = ['opcall', d, CONFIG.encode().hex(), PRELUDE.encode().hex(), spec['hex']] + list(spec.get('holes', []))
        rc, out, err = native.run(exe, args, timeout=spec.get('timeout', 40), mem_mb=4096)
        ok, dsc = native.classify(rc, out, err)
        return ok, dsc + ' [%s]' % bytes.fromhex(spec['hex']).decode('latin1')[:160]
    finally:
        shutil.rmtree(d, ignore_errors=True)

def _key(sig):
    def k(cid, v, rr):
        msg = re.sub(r'0x[0-9a-f]+|\d+', '#', v.get('msg', ''))
        return 'op:%s:%s:%s:%s:%s:%s' % (sig[0], sig[1], sig[2], sig[3], v.get('kind'), re.sub(r'[^A-Za-z#]+', '_', msg)[:50])
    return k

def run(ctx):
    tier = ctx['tier']; obs = []
    facts, rep_files, reps = dummy_tables()
    h = load(rep_files)
    rt.HOOKS['libm_contract'] = True; rt.HOOKS['sf_pool'] = SF_POOL
    real = registry('real'); allsig = registry('')
    dummy = [s_ for s_ in allsig if s_ not in set(real)]
    # ---- registry facts
    # ---- one VM with config, files and prelude, shared (copy-on-write) by every case
    rt.VFS.clear(); rt.VFS.update(FILES); rt.VFS_CWD[0] = b'/p'
    vm = h.new_vm(ALLOPS, 0, 0)
    h.reset_obs()
    assert h.parse_config(vm, CONFIG) == 1, h.errors()
    h.add_mapping(vm, '/p', '/')
    r = h.run(vm, PRELUDE)
    assert not h.errors(), h.errors()[:3]
    funcs = sorted(n for n in h.m.DEFINED if ('operators' in n or 'ops_' in n or 'd_array' in n) and len(n) < 140)
    STEPS = 3_000_000; CUT = 20 if tier == 'quick' else 40
    rt.CFG['cut_depth'] = CUT; rt.ALLOC_CUT[0] = (1 << 16, 3)
    groups = {}
    for sig in real:
        if sig[1] in SKIP: continue
        groups.setdefault(sig[1][0] if sig[1][0].isalpha() else '#', []).append(sig)
    skipped = sorted({s_[1] for s_ in real if s_[1] in SKIP})
    nopool = sorted({'%s:%s:%s' % (s_[2], s_[1], s_[3]) for s_ in real if s_[1] not in SKIP and s_[0] != 'N' and not combos(s_, tier)})
    sigs = [s_ for s_ in real if s_[1] not in SKIP and combos(s_, tier)]
    only = ctx.get('only') or ''
    m = re.match(r'op=(.*)$', only)
    if m: sigs = [s_ for s_ in sigs if s_[1] == m.group(1)]; ctx = dict(ctx, only=None)
    cases = []; cmap = {}
    for sig in sigs:
        cs = combos(sig, tier)
        cid = '%s:%s:%s:%s' % sig
        cases.append((cid, sig_case(h, vm, sig, cs))); cmap[cid] = (sig, cs)
    def keyfn(cid, v, rr): return _key(cmap[cid][0])(cid, v, rr)
    def replayfn(cid, v, rr):
        sig, cs = cmap[cid]
        inp = v.get('inputs') or rr.get('inputs') or {}
        l, r_ = cs[int(inp.get('combo', 0)) if len(cs) > 1 else 0]
        return dict(kind='op', hex=program(sig, l, r_).encode().hex(), holes=_holes_args(inp))
    r = oblig.run('ops.real', cases, ctx, funcs,
                  '%d implemented signatures (all of the registry except the NOT IMPLEMENTED tables%s), %d calls: scalar and boolean operands fully symbolic; array / string / code / config / object / group / handle operands from the pools in props/C09.py (%s argument pairs per binary signature at most)' % (len(sigs), '' if not skipped else ' and ' + ', '.join(skipped), sum(len(combos(s_, tier)) for s_ in sigs), 36 if tier == 'quick' else 400),
                  assumptions=['allocation failure is out of scope', 'libm functions on symbolic operands return any value within their mathematical range (over-approximation; counterexamples are replayed natively)',
                               'where a symbolic scalar must be printed (str, format, toFixed, diagnostics) it is restricted to the boundary pool %r' % (SF_POOL,), 'rand() returns any value in 0..RAND_MAX',
                               'a path is cut after %d two-sided symbolic decisions (bounds the unrolling of loops whose trip count is a symbolic scalar)' % CUT, 'an allocation whose size depends on a symbolic scalar is checked against 2^31 bytes for all values, then explored for 3 representative sizes up to 64 KiB (larger ones are cut)', 'file system = in-memory model with files of 0, 1, 2 and 3 bytes, BOM-only files and an include', 'signatures whose operand type has no constructible value here are listed in the note'] + ['%s: %s' % kv for kv in sorted(SKIP.items())],
                  case_timeout=900, keyfn=keyfn, replayfn=replayfn, step_limit=STEPS, budget_is_violation='the call does not finish within %d steps' % STEPS,
                  sample_fn=lambda rr: dict(call=rr.get('text'), path_condition=rr.get('pc', [])[:3]) if rr.get('text') else None)
    if r:
        ob, recs = r
        if nopool: ob['note'] = (ob.get('note', '') + '; no operand value constructible for: ' + ', '.join(nopool)).strip('; ')
        oblig.witness_check(ob, recs, lambda rr: rr['verdict'] == 'ok' and rr.get('traced') == 1, 'a call that returned and whose following statement ran')
        obs.append(ob)
    # ---- NOT IMPLEMENTED tables
    vmd = h.new_vm(ALLOPS | DUMMYOPS, 0, 0)
    h.reset_obs(); h.parse_config(vmd, CONFIG); h.run(vmd, PRELUDE)
    dcases = []; dmap = {}
    for kind, name, size in reps:
        sig = ({'nular': 'N', 'unary': 'U', 'binary': 'B'}[kind], name, 'ANY', 'ANY')
        cs = combos(sig, tier)
        cid = 'dummy:%s:%s' % (kind, name)
        def mk(sig=sig, cs=cs, name=name):
            inner = sig_case(h, vmd, sig, cs)
            def case():
                ret = inner()
                if not h.logs:   # '[NOT IMPLEMENTED] <name>', or the nil-operand rejection that precedes dispatch
                    rt.record_violation('assert', 'table operator %s neither reports NOT IMPLEMENTED nor another diagnostic' % name)
                return ret
            return case
        dcases.append((cid, mk())); dmap[cid] = (sig, cs)
    bad_tables = [k for k, f in facts.items() if not f['one_lambda_per_line']]
    r = oblig.run('ops.dummy', dcases, ctx, ['sqf::operators::ops_dummy_nular', 'sqf::operators::ops_dummy_unary', 'sqf::operators::ops_dummy_binary'],
                  'the %d NOT IMPLEMENTED table entries: %s; every lambda of the three tables is compared on the -O0 LLVM IR of the real files after abstracting the lambda ordinal and the name constant, and one entry per equivalence class (%d in all) is executed from a copy of the real file truncated to these lines, with every ANY pool value' % (
                      sum(f['registrations'] for f in facts.values()), '; '.join('%s: %d registrations in classes of size %s' % (k, f['registrations'], f['classes']) for k, f in facts.items()), len(reps)),
                  assumptions=['allocation failure is out of scope', 'lambdas with identical normalised IR behave identically up to the operator name they print'], case_timeout=600,
                  keyfn=lambda cid, v, rr: 'op:dummy:%s:%s' % (cid, v.get('kind')), replayfn=lambda cid, v, rr: dict(kind='dummy'), step_limit=STEPS, budget_is_violation='the call does not finish within %d steps' % STEPS,
                  sample_fn=lambda rr: dict(call=rr.get('text')) if rr.get('text') else None)
    if r:
        ob, recs = r
        for v in ob['violations']: v['trust_without_replay'] = True
        if bad_tables: ob['status'] = 'inconclusive'; ob['note'] = (ob.get('note', '') + '; table layout not one lambda per registration line: ' + ', '.join(bad_tables)).strip('; ')
        oblig.witness_check(ob, recs, lambda rr: rr['verdict'] == 'ok' and rr.get('traced') == 1, 'a table operator call that returned')
        obs.append(ob)
    return obs
