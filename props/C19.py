"""C19 — execution control (start/stop/abort/step) follows its state machine (sequential part; thread interleavings are not applicable, see DESIGN.md).
All action sequences up to a bound, chosen by symbolic selectors, from each start situation (no script, script loaded, finished, failed) on the
real runtime::execute(): no crash / exception / invalid access; reported states only from {empty, halted, halted_error}; an assembly step
executes exactly one instruction; a line step never runs past the end of the current source line; abort on a halted VM discards all scripts;
stop / abort outside a running executor are refused; after every sequence the VM still accepts start and runs a fresh script to completion."""
import z3
import symrt as rt, vmh, oblig
from symrt import S
import C01

A_START, A_STOP, A_ABORT, A_ASTEP, A_LSTEP, A_LEAVE = 1, 2, 3, 4, 5, 6
NAMES = {1: 'start', 2: 'stop', 3: 'abort', 4: 'assembly_step', 5: 'line_step', 6: 'leave_scope'}
# one traced statement per line; nested blocks span lines; a multi-statement line
PROG = 'trace__ [1];\ntrace__ [2]; trace__ [2];\ncall {\n  trace__ [4];\n  call {\n    trace__ [6];\n  };\n  trace__ [8];\n};\nif (true) then {\n  trace__ [11];\n};\ntrace__ [13];'
NTR = 8
FAIL = 'trace__ [1];\n[] select 5;\ntrace__ [3];'

def seq_case(h, situation, length):
    def case():
        vm = h.new_vm(); h.reset_obs()
        push = lambda text: vmh.s32(h.N['w_vm_push_code'](vm, rt.make_bytes(text.encode(), 'input'), len(text), 0))
        if situation == 'loaded': push(PROG)
        elif situation == 'finished': h.run(vm, 'trace__ [0];'); h.reset_obs()
        elif situation == 'failed': h.run(vm, FAIL); h.reset_obs()
        hist = []
        for step in range(length):
            a = [A_START, A_STOP, A_ABORT, A_ASTEP, A_LSTEP, A_LEAVE][C01.choose('a%d' % step, 6)]
            st0 = h.state(vm); nt0 = len(h.traces); nctx0 = h.N['w_vm_context_count'](vm)
            r = h.execute(vm, a)
            st1 = h.state(vm); nt1 = len(h.traces); nctx1 = h.N['w_vm_context_count'](vm)
            hist.append('%s->%d/%d' % (NAMES[a], r, st1))
            tag = 'from %s, after %s: ' % (situation, ' '.join(hist))
            if st1 not in (0, 1, 3): rt.record_violation('assert', tag + 'execute() returned while the state is %d (running/evaluating)' % st1)
            if a == A_STOP and r != 1: rt.record_violation('assert', tag + 'stop without a running executor must be refused (action_error)')
            if a == A_ABORT:
                if st0 in (1, 3):
                    if r != 0 or st1 != 0 or nctx1 != 0: rt.record_violation('assert', tag + 'abort on a halted VM must discard all scripts (result %d, state %d, %d contexts)' % (r, st1, nctx1))
                elif r != 1: rt.record_violation('assert', tag + 'abort on an empty VM must be refused')
            if a == A_ASTEP and nctx0 > 0 and st0 in (0, 1):
                if nt1 - nt0 > 1: rt.record_violation('assert', tag + 'one assembly step executed %d traced statements' % (nt1 - nt0))
            if a == A_LSTEP and nctx0 > 0 and st0 in (0, 1):
                new = [int(v[0]) for v in h.traces[nt0:]]
                if len(set(new)) > 1: rt.record_violation('assert', tag + 'one line step executed statements of %d different lines: %r' % (len(set(new)), new))
            if a == A_START and r in (0, -1) and st1 == 0 and nctx1 != 0: rt.record_violation('assert', tag + 'start finished with state empty but %d contexts remain' % nctx1)
            if rt.PS.violations: break
        if not rt.PS.violations:
            # the VM must still be usable: (abort if halted), then a fresh script runs to completion - driven by start, by line steps or by
            # assembly steps (symbolic choice); when no script was left over, nothing but the fresh script may execute (an aborted script stays dead)
            aborted_now = h.state(vm) in (1, 3) and h.execute(vm, A_ABORT) == 0
            leftover = h.N['w_vm_context_count'](vm)
            h.reset_obs()
            # step-driven probes only right after an abort that discarded everything: the VM is then in the documented 'no script loaded' situation, from
            # which stepping a newly loaded script works on a fresh VM; after a script merely *finished* under stepping the real code keeps its finished
            # context selected until the next start, which the property does not forbid
            mode = C01.choose('probe', 3) if aborted_now and leftover == 0 and h.state(vm) == 0 else 0
            ptext = 'trace__ [100];\ntrace__ [101];'
            if mode == 0: r = h.run(vm, ptext)
            else:
                push(ptext); r = 0; n = 0
                while n < 60:
                    r = h.execute(vm, A_LSTEP if mode == 1 else A_ASTEP); n += 1
                    if h.N['w_vm_context_count'](vm) == 0 or h.state(vm) not in (0, 1) or r not in (0, -1): break
            probe = [v for v in h.traces if v in ([100.0], [101.0])]
            how = ('start', 'line steps', 'assembly steps')[mode]
            if probe != [[100.0], [101.0]] or h.state(vm) != 0:
                rt.record_violation('assert', 'from %s, after %s: the VM no longer runs a fresh script by %s (result %d, state %d, traces %r, log %r)' % (situation, ' '.join(hist), how, r, h.state(vm), h.traces[:4], [l[2][:60] for l in h.logs[:2]]))
            elif leftover == 0 and h.traces != probe:
                rt.record_violation('assert', 'from %s, after %s: with no script left, running a fresh script by %s also executed %r (a discarded script came back)' % (situation, ' '.join(hist), how, [v for v in h.traces if v not in probe][:4]))
        return dict(text='%s: %s' % (situation, ' '.join(hist)), n=len(hist))
    return case

def step_case(h):
    """k assembly steps (k symbolic) then line steps to the end: each line step completes at most the current line; the program completes"""
    def case():
        vm = h.new_vm(); h.reset_obs()
        h.N['w_vm_push_code'](vm, rt.make_bytes(PROG.encode(), 'input'), len(PROG), 0)
        k = C01.choose('k', 40)
        for i in range(k):
            n0 = len(h.traces); r = h.execute(vm, A_ASTEP)
            if len(h.traces) - n0 > 1: rt.record_violation('assert', 'assembly step %d executed %d traced statements' % (i, len(h.traces) - n0)); return
            if h.state(vm) == 0: break
        nsteps = 0
        while h.N['w_vm_context_count'](vm) > 0 and h.state(vm) in (0, 1) and nsteps < 40:
            n0 = len(h.traces)
            r = h.execute(vm, A_LSTEP); nsteps += 1
            new = [int(v[0]) for v in h.traces[n0:]]
            if len(set(new)) > 1:
                rt.record_violation('assert', 'after %d assembly steps, line step %d executed statements of lines %r (it ran past the next line)' % (k, nsteps, new)); return
        if h.state(vm) != 0: rt.record_violation('assert', 'after %d assembly steps and %d line steps the program is not finished (state %d)' % (k, nsteps, h.state(vm)))
        if [int(v[0]) for v in h.traces] != [1, 2, 2, 4, 6, 8, 11, 13]: rt.record_violation('assert', 'stepping executed lines %r instead of [1,2,2,4,6,8,11,13]' % [int(v[0]) for v in h.traces])
        return dict(text='%d assembly steps then %d line steps' % (k, nsteps), n=nsteps)
    return case

def leave_case(h):
    def case():
        vm = h.new_vm(); h.reset_obs()
        h.N['w_vm_push_code'](vm, rt.make_bytes(PROG.encode(), 'input'), len(PROG), 0)
        k = C01.choose('k', 36)
        for i in range(k):
            h.execute(vm, A_ASTEP)
            if h.state(vm) == 0: return dict(text='finished before leave', n=0)
        f0 = h.N['w_ctx_frames_size'](vm, 0)
        r = h.execute(vm, A_LEAVE)
        if h.state(vm) == 1:
            f1 = h.N['w_ctx_frames_size'](vm, 0)
            if f1 >= f0 and f0 > 1: rt.record_violation('assert', 'leave_scope after %d steps halted with %d frames (had %d): the scope was not left' % (k, f1, f0))
        elif h.state(vm) != 0: rt.record_violation('assert', 'leave_scope ended in state %d' % h.state(vm))
        return dict(text='leave_scope after %d steps' % k, n=1)
    return case

def replay(spec):
    return None, 'no native replay'

def run(ctx):
    tier = ctx['tier']; h = vmh.load(); obs = []
    funcs = sorted(n for n in h.m.DEFINED if 'runtime7runtime7execute' in n) + ['execute_do (static, runtime.cpp)']
    L = 3 if tier == 'quick' else 4
    cases = [('%s.len%d' % (s_, L), seq_case(h, s_, L)) for s_ in ('none', 'loaded', 'finished', 'failed')]
    def key(cid, v, rr): return 'ctl:%s' % v.get('msg', '')[:110].replace(' ', '_')
    r = oblig.run('ctl.seq', cases, ctx, funcs, 'all %d-action sequences over {start, stop, abort, assembly_step, line_step, leave_scope} from 4 start situations (6^%d x 4 = %d sequences), each followed by a usability probe (a fresh script driven to its end by start, by line steps or by assembly steps - symbolic choice - which must run completely and alone)' % (L, L, 4 * 6 ** L),
                  assumptions=['single thread: the controller issues actions between executor returns (thread interleavings are not applicable)', 'allocation failure is out of scope'], case_timeout=2400, keyfn=key, step_limit=400_000_000,
                  sample_fn=lambda rr: dict(sequence=rr.get('text')) if rr.get('text') else None)
    if r:
        ob, recs = r
        for v in ob['violations']: v['trust_without_replay'] = True
        oblig.witness_check(ob, recs, lambda rr: rr['verdict'] == 'ok' and rr.get('n'), 'a sequence run to its usability probe'); obs.append(ob)
    r = oblig.run('ctl.step', [('astep.then.lstep', step_case(h)), ('leave', leave_case(h))], ctx, funcs, 'a 13-line program with nested blocks; k = 0..39 assembly steps (symbolic) followed by line steps to the end; leave_scope after k = 0..35 steps',
                  assumptions=['single thread'], case_timeout=1200, keyfn=key, step_limit=400_000_000, sample_fn=lambda rr: dict(steps=rr.get('text')) if rr.get('text') else None)
    if r:
        ob, recs = r
        for v in ob['violations']: v['trust_without_replay'] = True
        oblig.witness_check(ob, recs, lambda rr: rr['verdict'] == 'ok', 'a stepping run'); obs.append(ob)
    return obs
