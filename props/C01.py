"""C01 — expressions group by registered precedence, left-assoc, unary tightest, operands in order.
(1) registry: the complete operator registry is dumped natively from the real registration functions; every name has one binary precedence in 1..10.
(2) parse.diff: the real lexer + LALR parser + to_assembly (engine E2) against the documented reading: expression trees over every registered
    binary operator name (and unary / nular / array / code / parenthesis forms) are printed with minimal parentheses and must compile to the
    post-order of the tree. Operator slots are symbolic selectors that the solver enumerates.
(3) eval.order: operands reach the operator in source order (left = earlier), array elements left to right — symbolic floats through the real VM."""
import os, itertools, z3
import loader, symrt as rt, vmh, oblig, native, diffvm, sqfref
from diffvm import Prog
from C02 import G, N, T

def registry():
    import glob
    srcs = [f for f in glob.glob(loader.REPO + '/src/**/*.cpp', recursive=True) + glob.glob(loader.REPO + '/src/**/*.cc', recursive=True) if '/cli/' not in f and '/unused/' not in f and '/sqc/' not in f and '/export/' not in f]
    exe = native.build('opsdump', sorted(srcs) + ['/verif/harness/opsdump.cpp'], sanitize=False)
    rc, out, err = native.run(exe, [], timeout=120)
    B = {}; U = set(); Nl = set(); order = []
    for l in out.split('\n'):
        f = l.split('\t')
        if len(f) < 5: continue
        if f[0] == 'B': B.setdefault(f[1], []).append(int(f[2]))
        elif f[0] == 'U': U.add(f[1])
        elif f[0] == 'N': Nl.add(f[1])
    return B, U, Nl

# ---------------------------------------------------------------- expression trees and the documented reading
def lit(i): return ('lit', str(i))
def post(e, out):
    k = e[0]
    if k == 'lit': out.append('PUSH ' + e[1])
    elif k == 'var': out.append('GETVARIABLE ' + e[1])
    elif k == 'nul': out.append('CALLNULAR ' + e[1].lower())
    elif k == 'un': post(e[2], out); out.append('CALLUNARY ' + e[1].lower())
    elif k == 'bin': post(e[2], out); post(e[3], out); out.append('CALLBINARY ' + e[1].lower())
    elif k == 'arr':
        for x in e[1]: post(x, out)
        out.append('MAKEARRAY %d' % len(e[1]))
    elif k == 'code': out.append('PUSH {')
    elif k == 'paren': post(e[1], out)
    return out
def show(e, prec, side=None, P=None):
    """minimal parentheses: binary level p child under binary level q: left child needs parens iff p < q, right child iff p <= q;
    a unary's operand needs parens iff it is a binary expression"""
    k = e[0]
    if k == 'lit': return e[1]
    if k == 'var': return e[1]
    if k == 'nul': return e[1]
    if k == 'un':
        o = e[2]
        s = show(o, prec)
        if o[0] == 'bin': s = '(' + s + ')'
        return e[1] + ' ' + s
    if k == 'bin':
        p = prec[e[1].lower()]
        l, r = e[2], e[3]
        ls = show(l, prec); rs = show(r, prec)
        if l[0] == 'bin' and prec[l[1].lower()] < p: ls = '(' + ls + ')'
        if r[0] == 'bin' and prec[r[1].lower()] <= p: rs = '(' + rs + ')'
        return ls + ' ' + e[1] + ' ' + rs
    if k == 'arr': return '[' + ', '.join(show(x, prec) for x in e[1]) + ']'
    if k == 'code': return '{' + show(e[1], prec) + '}'
    if k == 'paren': return '(' + show(e[1], prec) + ')'
    raise ValueError(e)

def choose(name, n):
    """symbolic selector in 0..n-1 enumerated by the solver"""
    s = rt.fresh_bv(name, 16)
    rt.assume(s < n)
    return rt.concretize(s, limit=100000)

def listing_ok(h, vm, text, expect):
    got = h.compile_listing(vm, text)
    if got is None: return 'does not parse'
    got = [g.decode('latin1') for g in got]
    if len(got) != len(expect): return 'compiles to %r' % got
    for g, e in zip(got, expect):
        if e == 'PUSH {':
            if not g.startswith('PUSH {'): return 'compiles to %r' % got
        elif g != e: return 'compiles to %r' % got
    return None

def run(ctx):
    tier = ctx['tier']; obs = []
    B, U, Nl = registry()
    prec = {n: ps[0] for n, ps in B.items()}
    # ---- (1) registry consistency, decided as one satisfiability query over the dumped table
    import time; t0 = time.time()
    s = z3.Solver(); nm = z3.Int('name'); p1 = z3.Int('p1'); p2 = z3.Int('p2')
    names = sorted(B)
    tab = z3.Or(*[z3.And(nm == i, z3.Or(*[p1 == p for p in set(B[n])]), z3.Or(*[p2 == p for p in set(B[n])])) for i, n in enumerate(names)])
    s.add(tab, z3.Or(p1 != p2, p1 < 1, p1 > 10))
    r = s.check()
    viol = []
    if r == z3.sat:
        m = s.model(); n = names[m[nm].as_long()]
        viol.append(dict(kind='assert', msg='binary operator %r is registered with precedences %r' % (n, sorted(set(B[n]))), key='registry:%s' % n, inputs=None, trust_without_replay=True))
    obs.append(dict(id='registry', engine='z3 over the natively dumped registry', status='violated' if viol else 'held', paths=1, queries=1, solver_s=round(time.time() - t0, 2), wall_s=round(time.time() - t0, 2), complete=True,
                    verdicts={'ok': 1}, violations=viol, functions=['sqf::operators::ops (all 17 registration units, native dump)'], bounds='all %d binary signatures of %d names, %d unary names, %d nular names' % (sum(len(v) for v in B.values()), len(B), len(U), len(Nl)),
                    assumptions=['the registry is read from a native build of the real registration functions (harness/opsdump.cpp)'], samples=[dict(name='select', precedences=sorted(set(B.get('select', []))))]))
    # ---- (2) parse.diff
    h = vmh.load()
    vm0 = h.new_vm()
    have_b = set(); have_u = set(); have_n = set()
    def reg(kind, name, p=4):
        b = rt.make_bytes(name.encode('latin1') + b'\0', 'input')
        return h.N['w_vm_register_dummy'](vm0, kind, b, p)
    added = 0
    for n in sorted(Nl): added += reg(0, n)
    for n in sorted(U): added += reg(1, n)
    for n in sorted(B): added += reg(2, n, prec[n])
    # classes by name
    def cls(n): return ('B' if n in B else '') + ('U' if n in U else '') + ('N' if n in Nl else '')
    import re
    OPTOK = {'==', '<=', '<', '>=', '>>', '>', '+', '-', '/', '*', '%', '^', '!=', '!', ':', '#', '||', '&&'}
    writable = lambda n: bool(re.fullmatch(r'[A-Za-z_][A-Za-z0-9_]*', n)) or n in OPTOK
    unwritable = sorted(n for n in B if not writable(n))
    bnames = sorted(n for n in B if writable(n))
    reps = {}
    for n in bnames: reps.setdefault((prec[n], cls(n)), n)
    replist = sorted(reps.values(), key=lambda n: (prec[n], n))
    canon = {}
    for n in bnames:
        if cls(n) == 'B' and n.isalpha(): canon.setdefault(prec[n], n)
    for n in bnames: canon.setdefault(prec[n], n)
    levels = sorted(canon)
    unames = sorted(n for n in U if n not in Nl and n not in B and n.isalpha())[:8] + [n for n in ('-', '+', '!') if n in U]
    nnames = sorted(n for n in Nl if n not in U and n not in B and n.isalpha() and n not in ('true', 'false', 'nil'))[:4]
    def check(text, tree, what):
        err = listing_ok(h, vm0, text, post(tree, []))
        if err:
            rt.record_violation('assert', '%s: %r %s, documented reading gives %r' % (what, text, err, post(tree, [])))
            rt.PS.violations[-1]['parse'] = dict(text=text, expect=post(tree, []))
    def case_pairs():
        i = choose('x', len(replist)); j = choose('y', len(replist)); X, Y = replist[i], replist[j]
        for tree in (('bin', Y, ('bin', X, lit(1), lit(2)), lit(3)), ('bin', X, lit(1), ('bin', Y, lit(2), lit(3)))):
            check(show(tree, prec), tree, 'levels %d,%d' % (prec[X], prec[Y]))
        # three operators
        k = choose('z', len(levels)); Z = canon[levels[k]]
        for tree in (('bin', Z, ('bin', Y, ('bin', X, lit(1), lit(2)), lit(3)), lit(4)), ('bin', X, lit(1), ('bin', Y, lit(2), ('bin', Z, lit(3), lit(4)))), ('bin', Y, ('bin', X, lit(1), lit(2)), ('bin', Z, lit(3), lit(4)))):
            check(show(tree, prec), tree, 'levels %d,%d,%d' % (prec[X], prec[Y], prec[Z]))
        return dict(text='1 %s 2 %s 3 ...' % (X, Y), n=5)
    def case_names(lo, hi):
        def f():
            i = choose('n', hi - lo) + lo; X = bnames[i]
            lv = levels if tier == 'thorough' else [l for l in levels if abs(l - prec[X]) <= 1]
            for l in lv:
                R = canon[l]
                for tree in (('bin', R, ('bin', X, lit(1), lit(2)), lit(3)), ('bin', X, lit(1), ('bin', R, lit(2), lit(3))), ('bin', X, ('bin', R, lit(1), lit(2)), lit(3)), ('bin', R, lit(1), ('bin', X, lit(2), lit(3)))):
                    check(show(tree, prec), tree, 'operator %s (level %d, class %s) against level %d' % (X, prec[X], cls(X), l))
            # letter case and whitespace do not matter
            if X.isalpha():
                tree = ('bin', canon[levels[0]], ('bin', X, lit(1), lit(2)), lit(3))
                check('1\t%s\n 2   %s 3' % (X.upper(), canon[levels[0]]), tree, 'case/whitespace variant of ' + X)
            return dict(text='1 %s 2 ...' % X, n=4)
        return f
    def case_unary():
        i = choose('u', len(unames)); Un = unames[i]; j = choose('x', len(replist)); X = replist[j]
        a = ('var', '_a')
        trees = [(('bin', X, ('un', Un, a), lit(2)), None), (('bin', X, lit(1), ('un', Un, a)), None), (('un', Un, ('un', Un, a)), None), (('un', Un, ('bin', X, a, lit(2))), None),
                 (('bin', X, ('un', Un, ('arr', [lit(1), ('bin', X, a, lit(2))])), lit(3)), None), (('bin', X, ('un', Un, ('code', ('bin', X, lit(1), lit(2)))), lit(3)), None)]
        for tree, _ in trees:
            check(show(tree, prec), tree, 'unary %s with binary %s (level %d)' % (Un, X, prec[X]))
        if nnames:
            Nn = nnames[i % len(nnames)]
            tree = ('bin', X, ('nul', Nn), ('un', Un, ('nul', Nn))); check(show(tree, prec), tree, 'nular operands')
        # sign on a number binds tighter than any binary operator
        for sgn in ('-', '+'):
            text = '%s1 %s 2' % (sgn, X); exp = ['PUSH %s1' % ('-' if sgn == '-' else ''), 'PUSH 2', 'CALLBINARY ' + X.lower()]
            err = listing_ok(h, vm0, text, exp)
            if err:
                rt.record_violation('assert', 'signed number: %r %s, documented reading gives %r' % (text, err, exp))
                rt.PS.violations[-1]['parse'] = dict(text=text, expect=exp)
        # parentheses override
        tree = ('bin', X, lit(1), ('paren', ('bin', X, lit(2), lit(3)))); check(show(tree, prec), tree, 'parentheses override')
        tree = ('bin', X, ('paren', ('paren', lit(1))), ('paren', lit(2))); check(show(tree, prec), tree, 'redundant parentheses')
        return dict(text='%s _a %s 2 ...' % (Un, X), n=6)
    funcs = sorted(n for n in h.m.DEFINED if ('parser3sqf' in n or 'tokenizer' in n) and len(n) < 130)
    chunk = 40
    cases = [('pairs', case_pairs), ('unary', case_unary)] + [('names%d' % lo, case_names(lo, min(lo + chunk, len(bnames)))) for lo in range(0, len(bnames), chunk)]
    r = oblig.run('parse.diff', cases, ctx, funcs, 'every ordered pair of %d representative binary operators (one per (level, arity-class)) x %d third operators; every one of the %d binary operator names against canonical operators of %s; %d unary names x representatives; arrays, code, signs, parentheses, case/whitespace variants' % (len(replist), len(levels), len(bnames), 'all 10 levels' if tier == 'thorough' else 'its own and the neighbouring levels', len(unames)),
                  assumptions=['operator registry content (names, arities, precedences) is the natively dumped one, registered through runtime::register_sqfop with no-op callbacks: %d stand-ins added to the operators of the loaded units' % added, 'allocation failure is out of scope', 'registered binary names that no token sequence can denote are excluded: %r' % unwritable],
                  case_timeout=1500, keyfn=lambda cid, v, rr: 'parse.diff:' + v.get('msg', '')[:60].replace(' ', '_'), replayfn=None, step_limit=2_000_000_000,
                  sample_fn=lambda rr: dict(expression=rr.get('text'), path_condition=rr.get('pc', [])[:3]) if rr.get('text') else None)
    if r:
        ob, recs = r
        pm = {}
        for rr in recs:
            for v in rr.get('violations', []):
                if v.get('parse'): pm[v['msg']] = v['parse']
        for v in ob['violations']:
            if v['msg'] in pm: v['replay'] = dict(kind='parse', text=pm[v['msg']]['text'], expect=pm[v['msg']]['expect'])
        oblig.witness_check(ob, recs, lambda rr: rr['verdict'] == 'ok' and rr.get('text'), 'a path whose listings were compared')
        obs.append(ob)
    # ---- (3) evaluation order with symbolic floats
    progs = {}
    g = G(); progs['sub'] = Prog([T(('bin', '-', g.hf(['range', -4, 4]), g.hf(['range', -4, 4])))], g.f, g.b)
    g = G(); progs['arr'] = Prog([T(('arr', [g.hf(['range', -4, 4]), g.hf(['range', -4, 4]), g.hf(['range', -4, 4])]))], g.f, g.b)
    g = G(); progs['mixed'] = Prog([T(('bin', '-', ('bin', '-', g.hf(['range', 0, 4]), g.hf(['range', 0, 4])), ('bin', '*', g.hf(['range', 0, 4]), N(2)))), T(('bin', '<', g.hf(['range', 0, 4]), g.hf(['range', 0, 4]))),
                               T(('bin', 'select', ('arr', [N(10), N(20), N(30)]), N(1))), T(('bin', 'pushback', ('arr', [g.hb()]), g.hb()))], g.f, g.b)
    ob = diffvm.run_obligation('eval.order', progs, ctx, h, 'operand order of binary operators and array construction with symbolic single-precision operands in [-4, 4]')
    if ob: obs.append(ob)
    return obs

def replay(spec):
    if spec.get('kind') == 'parse':
        # confirm on a native build with the complete real registry that the listing differs from the documented reading
        import glob
        srcs = [f for f in glob.glob(loader.REPO + '/src/**/*.cpp', recursive=True) + glob.glob(loader.REPO + '/src/**/*.cc', recursive=True) if '/cli/' not in f and '/unused/' not in f and '/sqc/' not in f and '/export/' not in f]
        exe = native.build('opsdump', sorted(srcs) + ['/verif/harness/opsdump.cpp'], sanitize=False)
        rc, out, err = native.run(exe, ['listing', spec['text'].encode('latin1').hex()], timeout=60)
        got = [l[2:] for l in out.split('\n') if l.startswith('I ')]
        exp = spec['expect']
        same = len(got) == len(exp) and all((g.startswith('PUSH {') if e == 'PUSH {' else g == e) for g, e in zip(got, exp))
        if same: return False, 'native parser agrees with the documented reading'
        return True, 'native parser: %r compiles to %r, documented reading %r' % (spec['text'], got if got else 'a parse error', exp)
    import vmreplay
    return vmreplay.replay(spec)
