"""C03 — variable scoping. Differential obligation (real VM in E2 vs lib/sqfref.py) over programs that declare, shadow, assign and read
locals/globals across nested scopes of every scope-creating construct, with case variations, per-iteration clearing, with-namespace blocks,
getVariable/setVariable and spawn."""
import itertools
import vmh, diffvm
from diffvm import Prog
from C02 import G, N, T

V = lambda n: ('var', n)
def ops(g):
    """scope operations on the name _a (letter case varies)"""
    return dict(none=[], assign=[('assign', '_a', g.hf(['sym', 20, 21]))], assign_uc=[('assign', '_A', N(22))], private=[('private', '_a', N(30))], private_uc=[('private', '_A', N(31))],
                privdecl=[('privdecl', ['_a'])], privdecl_uc=[('privdecl', ['_A'])], params=[('params', ['_a'])],
                params_missing=[('params', ['_p', '_a'])])      # _this has one element: the second name has no argument and no default, it is still bound (to nil) in this scope
def wrap(kind, g, body):
    """a construct that runs `body` in a new scope"""
    if kind == 'call': return [('call', None, ('code', body))]
    if kind == 'callargs': return [('call', ('arr', [N(40)]), ('code', body))]
    if kind == 'if': return [('if', ('bool', True), body, None)]
    if kind == 'ifelse': return [('if', g.hb(), body, body)]
    if kind == 'foreach': return [('foreach', body, ('arr', [N(1), N(2)]))]
    if kind == 'while':
        w = g.var('_w')
        return [('private', w, N(0)), ('while', [('bin', '<', V(w), N(2))], body + [('assign', w, ('bin', '+', V(w), N(1)))])]
    if kind == 'for': return [('for', g.var('_f'), N(0), N(1), None, body)]
    if kind == 'switch': return [('switch', N(1), [('case', N(1), body)])]
    if kind == 'try': return [('try', body, [T(N(99))])]
    if kind == 'apply': return [('apply', ('arr', [N(1)]), body + [N(0)])]
    if kind == 'count': return [('countc', body + [('bool', True)], ('arr', [N(1)]))]
    if kind == 'lazy': return [('lazy', 'and', ('bool', True), body + [('bool', True)])]
    raise ValueError(kind)
KINDS = ['call', 'callargs', 'if', 'ifelse', 'foreach', 'while', 'for', 'switch', 'try', 'apply', 'count', 'lazy']
OPN = ['none', 'assign', 'assign_uc', 'private', 'private_uc', 'privdecl', 'privdecl_uc', 'params', 'params_missing']

def nest_prog(k1, o1, k2, o2, outer_bound):
    g = G()
    rd = lambda: T(('arr', [('isnil', '_a'), V('_a')]))
    inner = ops(g)[o2] + [rd()]
    mid = ops(g)[o1] + [rd()] + wrap(k2, g, inner) + [rd()]
    top = ([('private', '_a', N(1))] if outer_bound else []) + [rd()] + wrap(k1, g, mid) + [rd()]
    # the whole program runs inside '[40] call {...}' so that _this is an array everywhere (params binds from it)
    return Prog([('call', ('arr', [N(40)]), ('code', top))], g.f, g.b)

def programs(tier):
    progs = {}
    # nested scopes: two levels, every pair of scope kinds for a core subset, every pair of operations
    kinds1 = KINDS if tier == 'thorough' else ['call', 'callargs', 'if', 'foreach', 'while', 'for', 'switch', 'try', 'apply']
    kinds2 = KINDS if tier == 'thorough' else ['call', 'foreach', 'while', 'if']
    opn2 = OPN if tier == 'thorough' else ['none', 'assign', 'assign_uc', 'private', 'privdecl']
    for k1, k2 in itertools.product(kinds1, kinds2):
        for o1, o2 in itertools.product(OPN, opn2):
            for ob in ((True, False) if tier == 'thorough' else (True,)):
                progs['nest.%s.%s.%s.%s.%d' % (k1, o1, k2, o2, ob)] = nest_prog(k1, o1, k2, o2, ob)
    for k1 in KINDS:
        for o1 in OPN:
            progs['nest1.%s.%s.unbound' % (k1, o1)] = nest_prog(k1, o1, 'call', 'none', False)
    # per-iteration clearing: a name bound in iteration i must be unbound at the start of iteration i+1 (and in the loop condition)
    g = G(); progs['iter.foreach'] = Prog([('foreach', [T(('arr', [('isnil', '_t'), V('_t')])), ('assign', '_t', V('_x'))], ('arr', [N(1), N(2), N(3)])), T(('isnil', '_t'))], g.f, g.b)
    g = G(); progs['iter.foreach.private'] = Prog([('private', '_t', N(0)), ('foreach', [T(V('_t')), ('private', '_t', V('_x')), T(V('_t'))], ('arr', [N(1), N(2)])), T(V('_t'))], g.f, g.b)
    g = G(); progs['iter.for'] = Prog([('for', '_i', N(0), N(2), None, [T(('arr', [('isnil', '_t'), V('_i')])), ('assign', '_t', V('_i'))]), T(('arr', [('isnil', '_t'), ('isnil', '_i')]))], g.f, g.b)
    g = G(); progs['iter.while.cond'] = Prog([('private', '_flag', N(0)), ('private', '_n', N(0)),
        ('while', [('assign', '_n', ('bin', '+', V('_n'), N(1))), T(('arr', [V('_n'), V('_flag')])), ('bin', '&&', ('bin', '<', V('_n'), g.hf([2, 3, 4])), ('bin', '==', V('_flag'), N(0)))], [('private', '_flag', N(1)), T(V('_flag'))]),
        T(('arr', [V('_n'), V('_flag')]))], g.f, g.b)
    g = G(); progs['iter.while.body'] = Prog([('private', '_n', N(0)), ('while', [('private', '_c', N(5)), ('bin', '<', V('_n'), N(2))], [T(('arr', [('isnil', '_c'), ('isnil', '_t')])), ('assign', '_t', N(1)), ('assign', '_n', ('bin', '+', V('_n'), N(1)))]), T(('isnil', '_t'))], g.f, g.b)
    g = G(); progs['iter.count'] = Prog([T(('countc', [T(('isnil', '_t')), ('assign', '_t', N(1)), ('bool', True)], ('arr', [N(1), N(2)]))), T(('isnil', '_t'))], g.f, g.b)
    g = G(); progs['iter.apply'] = Prog([T(('apply', ('arr', [N(1), N(2)]), [T(('isnil', '_t')), ('assign', '_t', N(1)), V('_x')])), T(('arr', [('isnil', '_t'), ('isnil', '_x')]))], g.f, g.b)
    # assignment through two and three levels updates the nearest holder
    g = G(); progs['deep.assign'] = Prog([('private', '_a', N(1)), ('call', None, ('code', [('call', None, ('code', [('private', '_a', N(2)), ('call', None, ('code', [('assign', '_a', g.hf(['sym', 3, 4])), T(V('_a'))])), T(V('_a'))])), T(V('_a'))])), T(V('_a'))], g.f, g.b)
    g = G(); progs['deep.create'] = Prog([('call', None, ('code', [('call', None, ('code', [('assign', '_b', N(5)), T(V('_b'))])), T(('isnil', '_b')), ('assign', '_b', N(6)), ('call', None, ('code', [('assign', '_B', N(7))])), T(V('_b'))])), T(('isnil', '_b'))], g.f, g.b)
    # globals: case-insensitive, namespaces, with-do (incl. nested scopes inside with-do), getVariable/setVariable
    g = G(); progs['glob.case'] = Prog([('assign', 'GvarOne', g.hf(['sym', 1, 2])), ('call', None, ('code', [('assign', 'gvarone', ('bin', '+', V('GVARONE'), N(1)))])), T(V('gVarOne')), T(('getvar', 'missionNamespace', 'GVARONE'))], g.f, g.b)
    g = G(); progs['glob.with'] = Prog([('assign', 'gw', N(1)), ('with', 'uiNamespace', [('assign', 'GW', N(5)), T(V('gw'))]), T(V('gw')), T(('getvar', 'uiNamespace', 'gw')), T(('arr', [('getvar', 'missionNamespace', 'Gw')]))], g.f, g.b)
    g = G(); progs['glob.with.nested'] = Prog([('with', 'uiNamespace', [('assign', 'gx', N(1)), ('call', None, ('code', [('assign', 'gx', N(2)), T(V('gx'))])), ('if', ('bool', True), [('assign', 'gy', N(3))], None), ('foreach', [('assign', 'gz', V('_x'))], ('arr', [N(4)])), T(V('gx'))]),
        T(('arr', [('getvar', 'uiNamespace', 'gx'), ('getvar', 'uiNamespace', 'gy'), ('getvar', 'uiNamespace', 'gz')])), T(('arr', [('isnil', 'gx'), ('isnil', 'gy'), ('isnil', 'gz')]))], g.f, g.b)
    g = G(); progs['glob.with.with'] = Prog([('with', 'uiNamespace', [('with', 'parsingNamespace', [('assign', 'gq', N(1))]), ('assign', 'gr', N(2)), T(('isnil', 'gq'))]), T(('arr', [('getvar', 'parsingNamespace', 'gq'), ('getvar', 'uiNamespace', 'gr'), ('getvar', 'uiNamespace', 'gq')]))], g.f, g.b)
    g = G(); progs['glob.setvar'] = Prog([('setvar', 'missionNamespace', 'GsV', g.hf(['sym', 7, 8])), T(V('gsv')), ('assign', 'gsv', N(9)), T(('getvar', 'missionNamespace', 'GSV')), ('setvar', 'uiNamespace', 'gsv', N(1)), T(V('gsv')), ('with', 'uiNamespace', [T(V('GSV'))])], g.f, g.b)
    # spawn sees none of the starter's locals (and starts in the default namespace)
    g = G(); progs['spawn.locals'] = Prog([('private', '_l', N(1)), ('assign', 'gs', N(2)), ('spawn', ('arr', [N(3)]), [T(('arr', [('isnil', '_l'), V('_this'), V('gs')])), ('assign', '_l', N(4))]), T(V('_l'))], g.f, g.b)
    g = G(); progs['spawn.with'] = Prog([('with', 'uiNamespace', [('assign', 'gt', N(1)), ('spawn', ('arr', []), [T(('isnil', 'gt')), ('assign', 'gu', N(2))])]), T(N(0))], g.f, g.b)
    return progs

def replay(spec):
    import vmreplay
    return vmreplay.replay(spec)

def run(ctx):
    h = vmh.load()
    progs = programs(ctx['tier'])
    ob = diffvm.run_obligation('scope.diff', progs, ctx, h, '%d programs: two nested scope-creating constructs (%d kinds) x scope operations on one name (assign / private / private "..." / params with and without an argument for the name, two letter cases), outer binding present or not; per-iteration clearing; globals in 3 namespaces; spawn' % (len(progs), len(KINDS)), case_timeout=600)
    return [ob] if ob else []
