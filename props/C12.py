"""C12 — scheduler: round-robin in bounded slices, nobody skipped or starved, sleep / scriptDone / terminate.
The real runtime::execute(start) loop and execute_do run several spawned scripts (engine E2); script lengths relative to the 150-instruction
slice, sleep points and the finishing order are symbolic selectors; system_clock::now() is a virtual clock advancing 1 ms per reading.
Checked on the global trace (script id, step, virtual time): every script executes all its steps in order; between two consecutive slices
of a script every other still-running, non-sleeping script gets exactly one slice; no script resumes before its wake-up time; scriptDone is false while
statements remain and true afterwards; a terminated script executes nothing after its next scheduling point."""
import z3
import symrt as rt, vmh, oblig
from symrt import S
import C01

NS = 1_000_000
T0 = 1_700_000_000 * 1_000_000_000
def script(i, n, sleep_at=None, sleep_s=0.02):
    body = 'trace__ [%d, _k];' % i
    if sleep_at is not None: body += ' if (_k == %d) then { sleep %s };' % (sleep_at, sleep_s)
    return '[] spawn { for "_k" from 1 to %d do { %s }; trace__ [%d, 0] };' % (n, body, i)

def analyse(tr, lens, sleeps, tag=''):
    """tr: list of (id, step, time)"""
    per = {}
    for sid, step, t in tr: per.setdefault(sid, []).append((step, t))
    for sid, n in lens.items():
        got = [s for s, t in per.get(sid, [])]
        exp = list(range(1, n + 1)) + [0]
        if got != exp:
            rt.record_violation('assert', '%sscript %d executed steps %r instead of 1..%d and the final statement (a script was skipped, starved, dropped or reordered)' % (tag, sid, got[:12] + (['...'] if len(got) > 12 else []), n)); return
    # slices = maximal runs of one id in the global trace
    slices = []
    for sid, step, t in tr:
        if not slices or slices[-1][0] != sid: slices.append([sid, step, step, t])
        else: slices[-1][2] = step
    last_index = {sid: max(i for i, s in enumerate(slices) if s[0] == sid) for sid in lens}
    sleeping = set(sleeps)
    for x in lens:
        idx = [i for i, s in enumerate(slices) if s[0] == x]
        for a, b in zip(idx, idx[1:]):
            between = [s[0] for s in slices[a + 1:b]]
            for y in lens:
                if y == x or y in sleeping or x in sleeping: continue
                if last_index[y] < a: continue            # y already finished
                c = between.count(y)
                if c != 1:
                    rt.record_violation('assert', '%sbetween two consecutive slices of script %d, runnable script %d got %d slices (slice order %r)' % (tag, x, y, c, [s[0] for s in slices][:24])); return
    for sid, (at, dur) in sleeps.items():
        ev = per.get(sid, [])
        for (s1, t1), (s2, t2) in zip(ev, ev[1:]):
            if s1 == at and t2 - t1 < int(dur * 1e9):
                rt.record_violation('assert', '%sscript %d slept %g s at step %d but resumed after %g s of virtual time' % (tag, sid, dur, at, (t2 - t1) / 1e9)); return

def sched_case(h, nscripts):
    def case():
        LENS = [3, 14, 22, 40]
        lens = {}; sleeps = {}; text = ''
        for i in range(1, nscripts + 1):
            n = LENS[C01.choose('len%d' % i, len(LENS))]
            lens[i] = n
            sl = C01.choose('sleep%d' % i, 3)
            if sl == 1: sleeps[i] = (2, 0.02)
            elif sl == 2 and n >= 14: sleeps[i] = (13, 0.05)
            text += script(i, n, sleeps[i][0] if i in sleeps else None, sleeps[i][1] if i in sleeps else 0) + ' '
        st = {'t': T0}
        def clk(): st['t'] += NS; return st['t']
        rt.HOOKS['clock'] = clk
        tr = []
        orig = rt.EXT['verif_trace']
        def trace(vmp, vptr):
            v = h.pyval(vptr); tr.append((int(v[0]), int(v[1]), st['t']))
        rt.EXT['verif_trace'] = trace
        try:
            vm = h.new_vm()
            h.reset_obs()
            r = h.run(vm, text)
            if h.errors(): rt.record_violation('assert', 'scheduler run reported: ' + h.errors()[0][2][:150])
            if h.state(vm) != 0: rt.record_violation('assert', 'VM not empty after all scripts finished (state %d)' % h.state(vm))
            analyse(tr, lens, sleeps)
        finally:
            rt.EXT['verif_trace'] = orig; rt.HOOKS.pop('clock', None)
        for v in rt.PS.violations: v['prog'] = text
        return dict(text='lengths %r sleeps %r' % (lens, sleeps), n=len(tr))
    return case

def handle_case(h, which):
    def case():
        st = {'t': T0}
        def clk(): st['t'] += NS; return st['t']
        rt.HOOKS['clock'] = clk
        tr = []
        orig = rt.EXT['verif_trace']
        def trace(vmp, vptr):
            v = h.pyval(vptr); tr.append((v, st['t']))
        rt.EXT['verif_trace'] = trace
        try:
            vm = h.new_vm(); h.reset_obs()
            n = [2, 20, 45][C01.choose('n', 3)]
            if which == 'scriptdone':
                text = 'hB = [] spawn { for "_k" from 1 to %d do { trace__ [2, _k]; if (_k == 2) then { sleep 0.01 } }; trace__ [2, 0] }; [] spawn { for "_j" from 1 to 400 do { trace__ [9, scriptDone hB]; if (scriptDone hB) exitWith {}; sleep 0.003 } };' % n
                r = h.run(vm, text)
                last_b = max((i for i, (v, t) in enumerate(tr) if v[0] == 2.0), default=-1)
                firsttrue = next((i for i, (v, t) in enumerate(tr) if v[0] == 9.0 and v[1] is True), None)
                if firsttrue is None: rt.record_violation('assert', 'scriptDone never became true although the script finished')
                elif firsttrue < last_b: rt.record_violation('assert', 'scriptDone reported true while the script still had statements to run')
                if [v[1] for v, t in tr if v[0] == 2.0] != [float(k) for k in range(1, n + 1)] + [0.0]: rt.record_violation('assert', 'watched script did not run to completion: steps %r' % [v[1] for v, t in tr if v[0] == 2.0][:10])
            elif which == 'terminate':
                text = 'hB = [] spawn { for "_k" from 1 to 300 do { trace__ [2, _k]; sleep 0.002 } }; [] spawn { sleep 0.02; trace__ [9, 1]; terminate hB; trace__ [9, 2]; sleep 0.05; trace__ [9, 3] };'
                r = h.run(vm, text)
                i2 = next((i for i, (v, t) in enumerate(tr) if v == [9.0, 2.0]), None)
                if i2 is None: rt.record_violation('assert', 'terminating script did not run')
                else:
                    after = [v for v, t in tr[i2 + 1:] if v[0] == 2.0]
                    if len(after) > 1: rt.record_violation('assert', 'terminated script executed %d more traced statements after terminate (beyond its next scheduling point)' % len(after))
            elif which == 'waituntil':
                text = 'gw = 0; [] spawn { trace__ [2, 1]; waitUntil { gw > 2 }; trace__ [2, gw] }; [] spawn { for "_j" from 1 to 4 do { sleep 0.01; gw = _j; trace__ [9, _j] } };'
                r = h.run(vm, text)
                seq = [v for v, t in tr]
                if [2.0, 3.0] not in seq and [2.0, 4.0] not in seq: rt.record_violation('assert', 'waitUntil resumed although its condition was false: trace %r' % seq[:8])
            if h.errors(): rt.record_violation('assert', 'run reported: ' + h.errors()[0][2][:150])
        finally:
            rt.EXT['verif_trace'] = orig; rt.HOOKS.pop('clock', None)
        for v in rt.PS.violations: v['prog'] = text
        return dict(text=which, n=len(tr))
    return case

def replay(spec):
    import vmreplay
    if spec.get('kind') == 'sched':
        rc, out, err = vmreplay.run(['run', str(vmh.OPS_DEFAULT), '0', spec['hex']], timeout=60)
        ok, d = vmreplay.native.classify(rc, out, err)
        if ok: return ok, d
        tr = []
        for l in out.split('\n'):
            if l.startswith('TRACE ['):
                try: a, b = l[7:-1].split(','); tr.append((a.strip(), b.strip()))
                except Exception: pass
        return None, 'native trace of %d events (real clock): %r' % (len(tr), tr[:10])
    return None, 'no replay'

def run(ctx):
    tier = ctx['tier']; h = vmh.load(); obs = []
    funcs = sorted(n for n in h.m.DEFINED if ('runtime7runtime7execute' in n or 'spawn' in n or 'sleep' in n or 'scriptdone' in n or 'terminate' in n or 'waituntil' in n) and len(n) < 130) + ['execute_do (static, runtime.cpp)']
    ns = [2, 3] if tier == 'quick' else [2, 3, 4]
    def key(cid, v, rr): return 'sched:%s:%s' % (cid, v.get('msg', '')[:60].replace(' ', '_'))
    r = oblig.run('sched.rr', [('n%d' % n, sched_case(h, n)) for n in ns], ctx, funcs, '%s concurrently spawned scripts, each of 3 / 14 / 22 / 40 loop iterations (about 0.2 to 3 slices of 150 instructions), each without sleep, sleeping 0.02 s at step 2 or 0.05 s at step 13; virtual clock +1 ms per reading' % '/'.join(map(str, ns)),
                  assumptions=['system_clock::now() is a virtual clock (+1 ms per reading)', 'slice length is the 150 instructions hard-wired in execute(start)', 'allocation failure is out of scope'], case_timeout=2400, keyfn=key, step_limit=300_000_000,
                  sample_fn=lambda rr: dict(schedule=rr.get('text'), events=rr.get('n')) if rr.get('text') else None)
    if r:
        ob, recs = r
        for v in ob['violations']: v['trust_without_replay'] = True
        oblig.witness_check(ob, recs, lambda rr: rr['verdict'] == 'ok' and (rr.get('n') or 0) > 5, 'a schedule analysed to the end'); obs.append(ob)
    r = oblig.run('sched.handles', [(w, handle_case(h, w)) for w in ('scriptdone', 'terminate', 'waituntil')], ctx, funcs, 'scriptDone polled by a second script while the watched script (2 / 20 / 45 iterations, one sleep) runs; terminate of a sleeping-loop script; waitUntil with a condition that becomes true after 3 changes',
                  assumptions=['virtual clock (+1 ms per reading)'], case_timeout=1200, keyfn=key, step_limit=300_000_000)
    if r:
        ob, recs = r
        for v in ob['violations']: v['trust_without_replay'] = True
        oblig.witness_check(ob, recs, lambda rr: rr['verdict'] == 'ok' and (rr.get('n') or 0) > 2, 'a scenario analysed to the end'); obs.append(ob)
    return obs
