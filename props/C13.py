"""C13 — preprocessor output equals the reference expansion; strings are inviolate.
(1) reader.diff: for every NUL-free content of length <= N, the characters delivered by the real preprocessorfileinfo::next() equal a reference
    stripper (remove //... to end of line and /*...*/ outside double-quoted strings, join backslash-newline, drop CR, keep string bodies).
(2) expand.diff: the real preprocessor (impl_default::preprocess) on source texts from a grammar of directives, macro definitions/uses, strings and
    comments, with symbolic identifier characters / argument bytes / string contents, against a reference expander written from the statement;
    outputs are compared token-wise (whitespace-insensitive outside strings, '#line' marker lines ignored), strings byte for byte.
(3) passthrough: text without directive, macro name or comment passes through byte for byte (after the '#line 0' header)."""
import re, z3
import symrt as rt, loader, vmh, oblig
from symrt import S
import C01, C10

# ---------------------------------------------------------------- reference stripper / expander
def ref_strip(b):
    out = bytearray(); i = 0; n = len(b); instr = False
    while i < n:
        c = b[i]
        if c == 13: i += 1; continue
        if not instr and c == 47 and i + 1 < n and b[i + 1] == 47:
            i += 2
            while i < n and b[i] != 10: i += 1
            continue
        if not instr and c == 47 and i + 1 < n and b[i + 1] == 42:
            i += 2
            while i < n and not (b[i] == 42 and i + 1 < n and b[i + 1] == 47):
                if b[i] == 10: out.append(10)
                i += 1
            i = i + 2 if i < n else i
            continue
        if c == 92 and i + 1 < n and b[i + 1] == 10: i += 2; continue
        if c == 92 and i + 2 < n and b[i + 1] == 13 and b[i + 2] == 10: i += 3; continue
        if c == 34: instr = not instr
        out.append(c); i += 1
    return bytes(out)

IDENT = re.compile(rb'[A-Za-z_][A-Za-z0-9_]*')
def tokens(text):
    """token list: identifiers/numbers, strings (verbatim), single punctuation; whitespace dropped"""
    out = []; i = 0; n = len(text)
    while i < n:
        c = text[i:i + 1]
        if c in b' \t\r\n': i += 1; continue
        if c == b'"':
            j = i + 1
            while j < n and text[j:j + 1] != b'"': j += 1
            out.append(text[i:j + 1]); i = j + 1; continue
        m = re.compile(rb'[A-Za-z0-9_]+').match(text, i)
        if m: out.append(m.group(0)); i = m.end(); continue
        out.append(c); i += 1
    return out

class RefPP:
    def __init__(s): s.macros = {}
    def split_args(s, text, i):
        """text[i] == '(' ; returns (args, index after ')') honouring (), [], {} and strings; None if unterminated"""
        depth = 0; args = []; cur = bytearray(); j = i
        while j < len(text):
            c = text[j:j + 1]
            if c == b'"':
                k = text.find(b'"', j + 1)
                if k < 0: return None
                cur += text[j:k + 1]; j = k + 1; continue
            if c in b'([{':
                depth += 1
                if depth > 1: cur += c
            elif c in b')]}':
                depth -= 1
                if depth == 0:
                    args.append(bytes(cur)); return args, j + 1
                cur += c
            elif c == b',' and depth == 1:
                args.append(bytes(cur)); cur = bytearray()
            else: cur += c
            j += 1
        return None
    def expand(s, text, depth=0):
        if depth > 20: raise ValueError('recursion')
        out = bytearray(); i = 0; n = len(text)
        while i < n:
            c = text[i:i + 1]
            if c == b'"':
                k = text.find(b'"', i + 1); k = n - 1 if k < 0 else k
                out += text[i:k + 1]; i = k + 1; continue
            m = IDENT.match(text, i)
            if m and (i == 0 or not re.match(rb'[A-Za-z0-9_]', text[i - 1:i])):
                name = m.group(0)
                if name in s.macros:
                    params, body = s.macros[name]
                    if params is None:
                        out += s.expand(body, depth + 1); i = m.end(); continue
                    if text[m.end():m.end() + 1] == b'(':
                        r = s.split_args(text, m.end())
                        if r is None: raise ValueError('unterminated macro call')
                        args, j = r
                        args = [s.expand(a.strip(), depth + 1) for a in args]
                        if params == [] and args == [b'']: args = []
                        if len(args) != len(params): raise ValueError('arg count')
                        out += s.expand(s.subst(body, dict(zip(params, args))), depth + 1); i = j; continue
                out += name; i = m.end(); continue
            out += c; i += 1
        return bytes(out)
    def subst(s, body, amap):
        out = bytearray(); i = 0; n = len(body)
        while i < n:
            c = body[i:i + 1]
            if c == b'"':
                k = body.find(b'"', i + 1); k = n - 1 if k < 0 else k
                out += body[i:k + 1]; i = k + 1; continue
            if c == b'#' and body[i + 1:i + 2] == b'#': i += 2; continue          # concatenation: neighbours are joined
            if c == b'#':
                m = IDENT.match(body, i + 1)
                if m and m.group(0) in amap: out += b'"' + amap[m.group(0)] + b'"'; i = m.end(); continue
            m = IDENT.match(body, i)
            if m and (i == 0 or not re.match(rb'[A-Za-z0-9_]', body[i - 1:i])):
                out += amap.get(m.group(0), m.group(0)); i = m.end(); continue
            out += c; i += 1
        return bytes(out)
    def run(s, src):
        text = ref_strip(src)
        out = []; cond = []     # stack of (active, seen_else)
        for line in text.split(b'\n'):
            st = line.strip()
            active = all(a for a, e in cond)
            if st.startswith(b'#'):
                m = re.match(rb'#\s*([A-Za-z]+)\s*(.*)$', st, re.S)
                if not m: raise ValueError('directive')
                d = m.group(1).upper(); rest = m.group(2)
                if d == b'IFDEF': cond.append((IDENT.match(rest).group(0) in s.macros if active else False, False)); continue
                if d == b'IFNDEF': cond.append((IDENT.match(rest).group(0) not in s.macros if active else False, False)); continue
                if d == b'ELSE':
                    a, e = cond.pop(); outer = all(x for x, y in cond)
                    cond.append(((not a) and outer, True)); continue
                if d == b'ENDIF': cond.pop(); continue
                if not active: continue
                if d == b'DEFINE':
                    m2 = re.match(rb'([A-Za-z_][A-Za-z0-9_]*)(\(([^)]*)\))?\s?(.*)$', rest, re.S)
                    name = m2.group(1)
                    params = [p.strip() for p in m2.group(3).split(b',')] if m2.group(2) is not None and m2.group(3).strip() else ([] if m2.group(2) is not None else None)
                    s.macros[name] = (params, m2.group(4).strip()); continue
                if d == b'UNDEF': s.macros.pop(IDENT.match(rest).group(0), None); continue
                raise ValueError('unknown directive')
            if active: out.append(s.expand(line))
        return b'\n'.join(out)

# ---------------------------------------------------------------- obligations
def ref_strip_sym(b):
    """ref_strip over a list of byte values that may be symbolic (symrt.S): comparisons branch under the path condition"""
    out = []; i = 0; n = len(b); instr = False
    while i < n:
        c = b[i]
        if c == 13: i += 1; continue
        if not instr and c == 47 and i + 1 < n and b[i + 1] == 47:
            i += 2
            while i < n and b[i] != 10: i += 1
            continue
        if not instr and c == 47 and i + 1 < n and b[i + 1] == 42:
            i += 2
            while i < n and not (b[i] == 42 and i + 1 < n and b[i + 1] == 47):
                if b[i] == 10: out.append(10)
                i += 1
            i = i + 2 if i < n else i
            continue
        if c == 92 and i + 1 < n and b[i + 1] == 10: i += 2; continue
        if c == 92 and i + 2 < n and b[i + 1] == 13 and b[i + 2] == 10: i += 3; continue
        if c == 34: instr = not instr
        out.append(c); i += 1
    return out

def reader_case(N, n):
    def case():
        buf, bs = C10.sym_input(n, nonzero=True)
        p = rt.new_obj(N['w_pprd_sizeof'](), 'harness'); N['w_pprd_init'](p, buf, n)
        got = []
        for k in range(n + 1):
            c = N['w_pprd_next'](p)
            got.append(c & 0xFF)
        exp = ref_strip_sym(bs)      # branches of the reference are decided under the path condition of the real run (or fork)
        for k in range(len(got)):
            want = exp[k] if k < len(exp) else 0
            g = got[k]
            if g.__class__ is S or want.__class__ is S: rt.check(g == want, 'character %d delivered by the reader differs from the reference stripper' % k)
            elif g != want: rt.record_violation('assert', 'character %d delivered by the reader is %r, reference stripper %r (reader %r, reference %r)' % (k, g, want, got, exp)); break
        if len(exp) > len(got): rt.record_violation('assert', 'reference stripper yields more characters than the input is long')
        return dict(text='%d symbolic bytes' % n, n=n)
    return case

TEMPLATES = {
    # name: (source with {0},{1}.. holes, hole alphabets)
    'objmacro.ident': (b'#define AB 5\n{0}{1} AB xAB ABx AB_ _AB "AB" AB\n', [b'AaB_x1', b'BbA_y2']),
    'funcmacro': (b'#define F(x,y) [x, y, x{0}y]\nF(1,2) F(a, (b,c)) F([1,2],"p,q") F(F(1,2),3)\n', [b'+-']),
    'funcmacro.nesting': (b'#define P(x,y) x|y\nP([[1,2],3],4) P(a,[[1],[2,3]]) P(((1,2),3),{{4,5},6}) P([(1,{2,3}),4],5){0}\n', [b' ;']),
    'stringify.concat': (b'#define S(a) #a\n#define C(a,b) a##b##a\nS(w{0}) C(p{1},q) "S(1)" S("s")\n', [b'xy_', b'z1']),
    'body.string': (b'#define X 5\n#define G(NAME) "Hello NAME {0}" + NAME + X\nG(world) G(X) "G(1)"\n', [b'Xab']),
    'nested.body': (b'#define A 1\n#define B (A + A)\n#define Cc(v) (B * v)\nCc(A) Cc(Cc(2)) B{0}\n', [b' ;A']),
    'conditionals': (b'#define ON\n#ifdef ON\nyes{0}\n#define IN1 1\n#else\nno\n#define IN2 2\n#endif\n#ifndef ON\nn2\n#else\ny2\n#endif\n#ifdef IN2\nbad\n#endif\nIN1 IN2\n', [b' 1a']),
    'undef': (b'#define U 1\nU\n#undef U\nU U{0}\n#define U 2\nU\n', [b'x _']),
    'comments.strings': (b'a = "x // y"; // c{0} AB\nb = "/* z */"; /* m{1}\n n */ c = 1;\n#define AB 2\nd = "AB" + AB; e\\\nf\n', [b'"/*x', b'"*/n']),
    'inactive.directives': (b'#ifdef NOPE\n#define HID 1\n#undef KEEP\nhidden {0}\n#endif\n#define KEEP 3\nHID KEEP\n', [b'/a#(']),
    'undef.conditional': (b'#define KEEP 1\n#define DROP 2\n#define DROP2 4\n#ifdef NOPE\n#undef KEEP\n#endif\n#ifndef NOPE\n#undef DROP\n#else\n#undef KEEP\n#endif\n#ifdef KEEP\n#undef DROP2\n#endif\nKEEP DROP DROP2{0}\n', [b' x_']),
    'empty.args': (b'#define E(a) <a>\n#define Z() z\nE() E( ) Z() E({0})\n', [b'1 ,']),
}

def expand_case(h, name):
    src_t, alph = TEMPLATES[name]
    def case():
        vm = h.new_vm(); h.reset_obs()
        chosen = []
        for i, a in enumerate(alph):
            k = C01.choose('h%d' % i, len(a)); chosen.append(a[k:k + 1])
        src = src_t
        for i, c in enumerate(chosen): src = src.replace(b'{%d}' % i, c)
        out = h.preprocess(vm, src)
        ref = None
        try: ref = RefPP().run(src)
        except ValueError as e: ref = None
        errs = h.errors()
        if ref is None:
            if out is not None and not errs: rt.record_violation('assert', 'reference expander rejects %r but the preprocessor succeeded silently' % src)
            return dict(text=repr(src)[:200], n=0)
        if out is None:
            rt.record_violation('assert', 'preprocessing of %r failed (%s), reference expansion %r' % (src, errs[0][2][:100] if errs else 'no diagnostic', ref))
            rt.PS.violations[-1]['ppspec'] = dict(kind='pp', hex=src.hex(), expect=[t.decode('latin1') for t in tokens(ref)])
            return dict(text=repr(src)[:200], n=0)
        real = bytes(rt.concretize(b) if b.__class__ is S else b for b in out)
        lines = [l for l in real.split(b'\n') if not l.startswith(b'#line')]
        tr, te = tokens(b'\n'.join(lines)), tokens(ref)
        if tr != te:
            rt.record_violation('assert', 'preprocessing %r gives tokens %r, reference expansion %r' % (src, tr[:40], te[:40]))
            rt.PS.violations[-1]['ppspec'] = dict(kind='pp', hex=src.hex(), expect=[t.decode('latin1') for t in te])
        return dict(text=repr(src)[:200], n=len(te))
    return case

PLAIN = [b'private _a = [1, "x//y", {true}] select 0;\n_b = _a + 1.5e3; if (_b > 2) then { hint str _b };', b'class A { v[] = {1,2}; s = "a/*b*/"; };\n', b'x = "#define Q 1"; y = x # 1;']
def plain_case(h, i):
    def case():
        vm = h.new_vm(); h.reset_obs()
        src = PLAIN[i]
        pos = C01.choose('pos', len(src)); ch = rt.fresh_bv('c', 8)
        # one position replaced by any byte that does not create a directive, comment, continuation, string delimiter or identifier character
        rt.assume(z3.And(ch.e != 0, ch.e != ord('#'), ch.e != ord('/'), ch.e != ord('*'), ch.e != ord('\\'), ch.e != ord('"'), ch.e != 13, ch.e != 10, z3.Not(z3.And(z3.UGE(ch.e, 48), z3.ULE(ch.e, 57))), z3.Not(z3.And(z3.UGE(ch.e, 65), z3.ULE(ch.e, 90))), z3.Not(z3.And(z3.UGE(ch.e, 97), z3.ULE(ch.e, 122))), ch.e != 95))
        if src[pos:pos + 1] in b'"#/*\\': return dict(text='skip', n=0)
        buf = rt.make_bytes(src, 'input'); rt.st(buf + pos, 1, ch)
        ob = rt.new_obj(4096, 'harness')
        n = h.N['w_vm_preprocess'](vm, buf, len(src), ob, 4096)
        if n >> 63: rt.record_violation('assert', 'plain text failed to preprocess'); return dict(text='plain %d' % i, n=0)
        hdr = b'#line 0 "harness.sqf"\n'
        got = rt.read_vals(ob, n)
        body = got[len(hdr):]
        if bytes(x for x in got[:len(hdr)] if not x.__class__ is S) != hdr: rt.record_violation('assert', 'output does not start with the #line header')
        if len(body) not in (len(src), len(src) + 1): rt.record_violation('assert', 'plain text of %d bytes came out as %d bytes' % (len(src), len(body))); return dict(text='plain', n=0)
        for k in range(len(src)):
            want = ch if k == pos else src[k]
            g = body[k]
            if g.__class__ is S or want.__class__ is S: rt.check((g == want), 'byte %d of plain text altered by the preprocessor' % k)
            elif g != want: rt.record_violation('assert', 'byte %d of plain text altered: %r -> %r' % (k, want, g)); break
        return dict(text='plain %d pos %d' % (i, pos), n=len(src))
    return case

def replay(spec):
    import vmreplay
    if spec.get('kind') == 'pp':
        rc, out, err = vmreplay.run(['preprocess', spec['hex']], timeout=20)
        ok, d = vmreplay.native.classify(rc, out, err)
        if ok: return ok, d
        m = re.search(r'OUT (.*)', out, re.S)
        real = (m.group(1) if m else '').encode('latin1')
        lines = [l for l in real.split(b'\n') if not l.startswith(b'#line')]
        tr = tokens(b'\n'.join(lines)); te = [t.encode('latin1') for t in spec['expect']]
        if tr != te: return True, 'native preprocessor gives %r, reference %r' % (tr[:30], te[:30])
        return False, 'native output agrees with the reference'
    return None, 'no replay'

def run(ctx):
    tier = ctx['tier']; obs = []
    py, info = loader.build_unit('tok', C10.TOK_SRCS, C10.TOK_ROOTS)
    N = loader.load_unit(py).NAMES
    for n in ([1, 2, 3] if tier == 'quick' else [1, 2, 3, 4, 5]):
        oid = 'reader.diff.n%d' % n
        r = oblig.run(oid, [(oid, reader_case(N, n))], ctx, ['sqf::parser::preprocessor::impl_default::preprocessorfileinfo::next/_next/peek'], 'all NUL-free contents of length exactly %d' % n, assumptions=['allocation failure is out of scope'], case_timeout=1800,
                      keyfn=lambda cid, v, rr: 'reader.diff:' + v.get('msg', '')[:70].replace(' ', '_'), step_limit=200000)
        if r:
            ob, recs = r
            for v in ob['violations']: v['trust_without_replay'] = True
            oblig.witness_check(ob, recs, lambda rr: rr['verdict'] == 'ok', 'a content compared with the reference stripper'); obs.append(ob)
    h = vmh.load()
    funcs = sorted(x for x in h.m.DEFINED if 'preprocessor' in x and len(x) < 140)
    def rep(cid, v, rr):
        for x in rr.get('violations', []):
            if x.get('msg') == v.get('msg') and x.get('ppspec'): return x['ppspec']
        m = re.search(r"preprocessing (b'(?:[^'\\]|\\.)*'|b\"(?:[^\"\\]|\\.)*\") gives tokens .*, reference expansion (\[.*\])$", v.get('msg', ''), re.S)
        if not m: return None
        return dict(kind='pp', hex=eval(m.group(1)).hex(), expect=[t.decode('latin1') for t in eval(m.group(2))])
    r = oblig.run('expand.diff', [(k, expand_case(h, k)) for k in TEMPLATES], ctx, funcs, '%d templates (object-like and function-like macros, #/##, nested calls, conditionals, #undef at top level and inside active / inactive branches, comments and strings, inactive directives, empty arguments), each with 1-2 symbolic characters from small alphabets' % len(TEMPLATES),
                  assumptions=['reference expander: props/C13.py RefPP (written from the property statement); comparison is token-wise, whitespace outside strings and #line marker lines are ignored', 'allocation failure is out of scope'], case_timeout=900,
                  keyfn=lambda cid, v, rr: 'expand.diff:%s:%s' % (cid, v.get('msg', '')[:40].replace(' ', '_')), replayfn=rep, step_limit=100_000_000, sample_fn=lambda rr: dict(source=rr.get('text')) if rr.get('text') else None)
    if r:
        ob, recs = r
        oblig.witness_check(ob, recs, lambda rr: rr['verdict'] == 'ok' and rr.get('n'), 'a template compared with the reference expansion'); obs.append(ob)
    r = oblig.run('passthrough', [('plain%d' % i, plain_case(h, i)) for i in range(len(PLAIN))], ctx, funcs, '%d texts without directive / macro / comment, every position replaced by one symbolic byte that cannot start a directive, comment, string or identifier' % len(PLAIN),
                  assumptions=['a single trailing newline appended by the preprocessor is accepted'], case_timeout=900, keyfn=lambda cid, v, rr: 'passthrough:%s' % cid, step_limit=100_000_000)
    if r:
        ob, recs = r
        for v in ob['violations']: v['trust_without_replay'] = True
        oblig.witness_check(ob, recs, lambda rr: rr['verdict'] == 'ok' and rr.get('n'), 'a text compared byte for byte'); obs.append(ob)
    return obs
