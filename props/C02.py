"""C02 — control structures execute the statements SQF semantics prescribe.
Differential obligation: real parser + VM + ops_generic/ops_logic (engine E2) vs. the reference semantics in lib/sqfref.py, over programs
generated from a grammar of control constructs nested to depth 2 (quick) / 3 (thorough) with symbolic scalar holes."""
import itertools
import vmh, diffvm
from diffvm import Prog

class G:
    """grammar instance builder: allocates holes and unique variable names"""
    def __init__(s): s.f = {}; s.b = []; s.nv = 0
    def hf(s, dom):
        i = len(s.f); s.f[i] = list(dom); return ('hole', i)
    def hb(s):
        i = len(s.b); s.b.append(i); return ('bhole', i)
    def var(s, p='_v'):
        s.nv += 1; return '%s%d' % (p, s.nv)

N = lambda v: ('num', float(v))
T = lambda e: ('trace', e)

def c_if(g, inner):
    return [T(('if', g.hb(), [T(N(1))] + inner + [N(10)], [T(N(2)), N(20)]))]
def c_ifnoelse(g, inner):
    return [T(('if', g.hb(), [T(N(1))] + inner + [N(10)], None)), T(N(3))]
def c_exitwith(g, inner):
    return [T(('call', None, ('code', [T(N(1)), ('exitwith', g.hb(), inner + [N(5)]), T(N(2)), N(6)]))), T(N(3))]
def c_while(g, inner):
    v = g.var('_w')
    return [('private', v, N(0)), ('while', [('bin', '<', ('var', v), g.hf([0, 1, 2, 3]))], [T(('var', v))] + inner + [('assign', v, ('bin', '+', ('var', v), N(1)))]), T(('var', v))]
def c_for(g, inner):
    v = g.var('_f')
    return [('for', v, g.hf([0, 1, 2]), g.hf([0, 1, 2]), g.hf([-1, 1, 2]), [T(('var', v))] + inner), T(N(4))]
def c_fornostep(g, inner):
    v = g.var('_f')
    return [('for', v, g.hf([0, 1, 2]), g.hf([0, 1, 2]), None, [T(('var', v))] + inner), T(N(4))]
def c_foreach(g, inner):
    return [T(('foreach', [T(('arr', [('var', '_x'), ('var', '_forEachIndex')]))] + inner + [('assign', '_x', N(55)), ('var', '_forEachIndex')], ('arr', [g.hf([5, 6]), N(7), ('str', b's')]))), T(N(4))]
def c_count(g, inner):
    return [T(('countc', [T(('var', '_x'))] + inner + [('bin', '>', ('var', '_x'), g.hf([0, 1, 2, 3]))], ('arr', [N(1), N(2), N(3)])))]
def c_selectc(g, inner):
    # the body reassigns _x after deciding: the selected elements are those of the array, not what _x holds afterwards
    return [T(('selectc', ('arr', [N(1), N(2), N(3)]), [T(('var', '_x'))] + inner + [('private', '_kp', ('bin', '>=', ('var', '_x'), g.hf([1, 2, 3, 4]))), ('assign', '_x', ('bin', '+', ('var', '_x'), N(100))), ('var', '_kp')]))]
def c_apply(g, inner):
    return [T(('apply', ('arr', [N(1), g.hf([2, 9])]), [T(('var', '_x'))] + inner + [('bin', '*', ('var', '_x'), N(2))]))]
def c_findif(g, inner):
    return [T(('findif', ('arr', [N(1), N(2), N(3)]), [T(('var', '_x'))] + inner + [('bin', '==', ('var', '_x'), g.hf([0, 1, 2, 3]))]))]
def c_switch(g, inner):
    return [T(('switch', g.hf([0, 1, 2, 3]), [('case', N(0), [T(N(100))] + inner + [N(1)]), T(N(50)), ('case', N(1), None), ('case', N(2), [T(N(102)), N(2)]), T(N(51)), ('default', [T(N(109)), N(9)]), T(N(52))])), T(N(4))]
def c_call(g, inner):
    return [T(('call', ('arr', [g.hf([3, 4]), N(2)]), ('code', [('params', ['_p', '_q']), T(('var', '_p'))] + inner + [('bin', '+', ('var', '_p'), ('var', '_q'))])))]
def c_try(g, inner):
    return [T(('try', [T(N(1)), ('if', g.hb(), [('throw', g.hf([7, 8]))], None)] + inner + [N(3)], [T(('var', '_exception')), N(4)])), T(N(5))]
def c_breakout(g, inner):
    return [T(('call', None, ('code', [('scopename', b'S1'), T(N(1)), ('call', None, ('code', [T(N(2)), ('if', g.hb(), [('breakout', b'S1', g.hf([8, 9]))], None)] + inner + [T(N(3))])), T(N(4)), N(7)]))), T(N(5))]
def c_lazyand(g, inner):
    return [T(('lazy', 'and', g.hb(), [T(N(1))] + inner + [g.hb()]))]
def c_switchdef(g, inner):
    # default written above the cases: a matching case still wins, default only when none matches
    return [T(('switch', g.hf([0, 1, 2, 3]), [('default', [T(N(209)), N(9)]), T(N(60)), ('case', N(0), [T(N(200))] + inner + [N(1)]), ('case', N(2), [T(N(202)), N(2)]), T(N(61))])), T(N(5))]
def c_lazyor(g, inner):
    return [T(('lazy', 'or', g.hb(), [T(N(1))] + inner + [g.hb()]))]
def c_plain(g, inner):
    return [T(N(77))] + inner

CONSTRUCTS = dict(if_=c_if, ifnoelse=c_ifnoelse, exitwith=c_exitwith, while_=c_while, for_=c_for, fornostep=c_fornostep, foreach=c_foreach, count=c_count, selectc=c_selectc,
                  apply=c_apply, findif=c_findif, switch=c_switch, switchdef=c_switchdef, call=c_call, try_=c_try, breakout=c_breakout, lazyand=c_lazyand, lazyor=c_lazyor)
# inner statements that interfere with the enclosing construct (early exits) — placed innermost
def leaf_exit(g): return [('exitwith', g.hb(), [T(N(88)), g.hb()])]
def leaf_throw(g): return [('if', g.hb(), [('throw', N(66))], None)]
LEAVES = dict(none=lambda g: [], exit=leaf_exit)

def build(names, leaf):
    g = G()
    inner = LEAVES[leaf](g)
    for n in reversed(names):
        inner = CONSTRUCTS[n](g, inner)
    return Prog(inner, g.f, g.b, '>'.join(names) + '+' + leaf)

def programs(tier):
    progs = {}
    names = list(CONSTRUCTS)
    for n in names:
        for leaf in LEAVES: progs['%s+%s' % (n, leaf)] = build([n], leaf)
    for a, b in itertools.product(names, names):
        progs['%s>%s' % (a, b)] = build([a, b], 'none')
    if tier == 'thorough':
        for a, b in itertools.product(names, names):
            progs['%s>%s+exit' % (a, b)] = build([a, b], 'exit')
        core = ['exitwith', 'while_', 'for_', 'foreach', 'switch', 'try_', 'breakout', 'findif', 'call']
        for a, b, c in itertools.product(core, core, core):
            progs['%s>%s>%s' % (a, b, c)] = build([a, b, c], 'none')
    return progs

def replay(spec):
    import vmreplay
    return vmreplay.replay(spec)

def run(ctx):
    h = vmh.load()
    progs = programs(ctx['tier'])
    ob = diffvm.run_obligation('ctl.diff', progs, ctx, h, '%d programs: %d control constructs nested to depth %d over symbolic holes (loop bounds/case selectors in small integer sets, all booleans free); per program every feasible path of the real VM' % (len(progs), len(CONSTRUCTS), 3 if ctx['tier'] == 'thorough' else 2),
                               case_timeout=900)
    return [ob] if ob else []
