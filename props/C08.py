"""C08 — arrays are shared references, copies are independent, and never cyclic.
Histories of array operations over a heap of aliased / nested arrays (and one hashmap): after every operation the printed contents AND the identity
structure (which slots refer to the same array object; obtained through value::data() pointers) of all variables are compared with a reference heap
of list objects with reference semantics; a container that reaches itself is reported. Each operation runs inside except__ so that a refused
operation can be observed to leave the container as it was."""
import itertools, z3
import symrt as rt, vmh, oblig, diffvm, sqfref
from diffvm import Prog
from C02 import G, N, T
import C01

V = lambda n: ('var', n)
def B(op, l, r): return ('bin', op, l, r)
VARS = ['_a', '_b', '_c', '_z']
OBS = lambda: T(('arr', [V(v) for v in VARS]))

def init():
    return [('private', '_a', ('arr', [N(2), N(1)])), ('private', '_b', ('arr', [V('_a'), ('arr', []), N(3)])), ('private', '_c', V('_a')), ('private', '_z', ('arr', [N(9)])), ('private', '_h', ('nul', 'createHashMap')), OBS()]

def ops(g):
    """(name, statement list) — targets and arguments range over the live containers"""
    L = []
    tg = ['_a', '_b', '_z']
    vals = [('seven', N(7)), ('a', V('_a')), ('b', V('_b')), ('z', V('_z')), ('empty', ('arr', [])), ('wrap_a', ('arr', [V('_a')])), ('wrap_b', ('arr', [V('_b')]))]
    for t in tg:
        for vn, v in vals:
            L.append(('%s pushBack %s' % (t, vn), [B('pushback', V(t), v)]))
            L.append(('%s set [0,%s]' % (t, vn), [B('set', V(t), ('arr', [N(0), v]))]))
        for vn, v in vals[:4]:
            L.append(('%s pushBackUnique %s' % (t, vn), [B('pushbackunique', V(t), v)]))
            L.append(('%s set [3,%s]' % (t, vn), [B('set', V(t), ('arr', [N(3), v]))]))
        L.append(('%s set [-1,7]' % t, [B('set', V(t), ('arr', [N(-1), N(7)]))]))
        for vn, v in (('a', V('_a')), ('b', V('_b')), ('z', V('_z')), ('[a]', ('arr', [V('_a')])), ('[b]', ('arr', [V('_b')])), ('[[z]]', ('arr', [('arr', [V('_z')])]))):
            L.append(('%s append %s' % (t, vn), [B('append', V(t), v)]))
        for i in (0, 1, 5, -1): L.append(('%s deleteAt %d' % (t, i), [B('deleteat', V(t), N(i))]))
        for n in (0, 1, 4): L.append(('%s resize %d' % (t, n), [B('resize', V(t), N(n))]))
        L.append(('reverse %s' % t, [('un', 'reverse', V(t))]))
    L.append(('_a sort true', [B('sort', V('_a'), ('bool', True))])); L.append(('_a sort false', [B('sort', V('_a'), ('bool', False))]))
    for src in ('_a', '_b'):
        L.append(('_z = +%s' % src, [('assign', '_z', ('un', '+', V(src)))]))
        L.append(('_z = %s + _b' % src, [('assign', '_z', B('+', V(src), V('_b')))]))
        L.append(('_z = %s - [1]' % src, [('assign', '_z', B('-', V(src), ('arr', [N(1)])))]))
        L.append(('_z = %s select [0,1]' % src, [('assign', '_z', B('select', V(src), ('arr', [N(0), N(1)])))]))
        L.append(('_z = %s select [0,9]' % src, [('assign', '_z', B('select', V(src), ('arr', [N(0), N(9)])))]))     # the range covers the whole array: still a new array
        L.append(('_z = %s apply {_x}' % src, [('assign', '_z', ('apply', V(src), [V('_x')]))]))
        L.append(('_z = %s select {true}' % src, [('assign', '_z', ('selectc', V(src), [('bool', True)]))]))
    L.append(('_c = _z', [('assign', '_c', V('_z'))]))
    for t in ('_b', '_z'):
        L.append(('(%s select 1) pushBack seven' % t, [('if', B('isequalto', ('un', 'typename', B('select', V(t), N(1))), ('str', b'ARRAY')), [B('pushback', B('select', V(t), N(1)), N(7))], None)]))
    for vn, v in (('h', V('_h')), ('[h]', ('arr', [V('_h')])), ('a', V('_a'))):
        L.append(('_h set [1,%s]' % vn, [B('set', V('_h'), ('arr', [N(1), v]))]))
    L.append(('_a pushBack _h', [B('pushback', V('_a'), V('_h'))]))
    return L

def hist_case(h, length, fixed=None):
    def case():
        g = G(); OPS = ops(g)
        stmts = init(); names = []
        for step in range(length):
            i = fixed[step] if fixed else C01.choose('op%d' % step, len(OPS))
            nm, body = OPS[i]; names.append(nm)
            stmts += [('except', body, [T(N(900 + step))]), OBS()]
        p = Prog(stmts, g.f, g.b)
        h.want_ids = True
        res = diffvm.diff_case(h, p, expect_no_errors=False, extra_check=lambda h_, vm, ref, out, r: ids_check(h_, ref))()
        exp = None
        if rt.PS.violations:
            try: exp = diffvm.concrete_expect(p, {})[0]
            except Exception: exp = None
        for v in rt.PS.violations:
            v['hist'] = names; v['prog'] = p.text(); v['expect_str'] = exp
            if 'hashmap-cycle' in getattr(rt.PS, 'ref_flags', ()): v['cls'] = 'hashmap-cycle'
        res['text'] = ' ; '.join(names)
        return res
    return case

def has_cycle(f):
    if f is None: return False
    if f[0] == 'cycle': return True
    return any(has_cycle(c) for c in f[2])
def ids_check(h, ref):
    vi, ri = h.trace_ids, ref.trace_ids
    rt.PS.ref_flags = set(ref.flags)
    for v in rt.PS.violations:
        if 'hashmap-cycle' in ref.flags: v['cls'] = 'hashmap-cycle'
    for i, f in enumerate(vi):
        if has_cycle(f):
            rt.record_violation('assert', 'after observation %d a container reaches itself (cyclic array)' % i); rt.PS.violations[-1]['cls'] = 'cycle'; return
    if rt.PS.violations: return
    for i in range(min(len(vi), len(ri))):
        if vi[i] != ri[i]:
            rt.record_violation('assert', 'observation %d: sharing structure differs: VM %r, reference %r' % (i, vi[i], ri[i])); return

def find(OPS, *names): return [next(i for i, (n, b) in enumerate(OPS) if n == nm) for nm in names]

def replay(spec):
    import vmreplay
    if spec.get('expect_traces') is None and spec.get('op') == 'run':
        # cycles / sharing: native run of the history; a cycle shows as a hang or crash in str, sharing as different printed contents after a follow-up mutation
        rc, out, err = vmreplay.run(['run', str(spec.get('ops', vmh.OPS_DEFAULT)), '0', spec['hex']] + list(spec.get('holes', [])), timeout=20)
        ok, d = vmreplay.native.classify(rc, out, err)
        if ok: return ok, d
        tr = [l[6:] for l in out.split('\n') if l.startswith('TRACE ')]
        if spec.get('expect_str') is not None and tr != spec['expect_str']: return True, 'native run prints %r, reference %r' % (tr[-4:], spec['expect_str'][-4:])
        return False, 'native run agrees with the reference'
    return vmreplay.replay(spec)

def run(ctx):
    tier = ctx['tier']; h = vmh.load()
    g0 = G(); OPS = ops(g0)
    L = 2 if tier == 'thorough' else 1
    fixed = {'append.self': find(OPS, '_a append [a]'), 'append.via': find(OPS, '_b append [[z]]', '_z pushBack b'), 'set.grow.refused': find(OPS, '_a set [3,a]'), 'set.nested': find(OPS, '_a set [0,wrap_b]'),
             'hm.self': find(OPS, '_h set [1,h]'), 'hm.via': find(OPS, '_a pushBack _h', '_h set [1,a]'), 'copy.then.mutate': find(OPS, '_z = +_b', '_a pushBack seven', '_b pushBack seven'),
             'concat.then.mutate': find(OPS, '_z = _a + _b', '_a pushBack seven', '_z pushBack seven'), 'empty.nested.copy': find(OPS, '_z = +_b', '_z set [3,seven]', '_b append z'),
             'alias.sort': find(OPS, '_a pushBack seven', '_a sort true', 'reverse _a'), 'filter.then.mutate': find(OPS, '_z = _b select {true}', '_z resize 1', '_a resize 0'),
             'deep.copy.nested.empty': find(OPS, '_z = +_b', '_b set [3,seven]', '_b pushBackUnique z')}
    # the deep copy must also detach nested EMPTY arrays: mutate the nested empty array of the copy through a second history
    cases = [('hist.len%d' % L, hist_case(h, L))] + [('hist.' + k, hist_case(h, len(v), v)) for k, v in fixed.items()]
    # pairs: every operation followed by every in-place mutation of the nested empty array / the alias, to expose sharing created by the first
    muts = find(OPS, '_a pushBack seven', '(_z select 1) pushBack seven', '_z pushBack seven', '_b deleteAt 0', '_a resize 0', '_z set [0,seven]')
    if tier == 'quick':
        cases += [('hist.%d.then.%d' % (i, m), hist_case(h, 2, [i, m])) for i in range(len(OPS)) for m in muts[:3]]
    funcs = sorted(n for n in h.m.DEFINED if ('d_array' in n or 'ops_generic' in n or 'hashmap' in n) and len(n) < 120)
    def key(cid, v, rr):
        if cid == 'hist.hm.via' and v.get('kind') == 'recursion': return 'arr.hist:hashmap-cycle:_h_set_[1,a]'
        if v.get('kind') == 'recursion' and cid.startswith('hist.len'):
            # the run died in unbounded recursion before the history could be attached: rebuild it from the selector values
            inp = v.get('inputs') or rr.get('inputs') or {}
            names = [OPS[int(inp['op%d' % i])][0] for i in range(8) if 'op%d' % i in inp]
            hs = [n for n in names if n.startswith('_h set')]
            if hs: return 'arr.hist:hashmap-cycle:' + hs[0].replace(' ', '_')       # the same classes as the histories that are compared with the reference
            return 'arr.hist:recursion:' + ';'.join(names).replace(' ', '_')
        for x in rr.get('violations', []):
            if x['msg'] == v['msg'] and x.get('cls') == 'hashmap-cycle': return 'arr.hist:hashmap-cycle:' + next((n for n in x['hist'] if n.startswith('_h set')), 'x').replace(' ', '_')
            if x['msg'] == v['msg'] and x.get('hist'): return 'arr.hist:' + ';'.join(x['hist']).replace(' ', '_')[:120] + (':' + x['cls'] if x.get('cls') else '')
        return 'arr.hist:' + cid
    def rep(cid, v, rr):
        if cid == 'hist.hm.via' and v.get('kind') == 'recursion':
            return dict(kind='vm', op='run', ops=vmh.OPS_DEFAULT, pp=0, hex='private _a = [1]; private _h = createHashMap; _a pushBack _h; _h set [1, _a]; trace__ (str _a)'.encode().hex(), holes=[], expect_traces=None, expect_str=None)
        for x in rr.get('violations', []):
            if x['msg'] == v['msg'] and x.get('prog'):
                # native confirmation: print the observations with str; expectation from the reference on concrete holes
                p = x['prog']
                return dict(kind='vm', op='run', ops=vmh.OPS_DEFAULT, pp=0, hex=p.encode('latin1').hex(), holes=[], expect_traces=None, expect_str=x.get('expect_str'))
        return None
    r = oblig.run('arr.hist', cases, ctx, funcs, 'heap: _a=[2,1], _b=[_a,[],3], _c=_a (alias), _z=[9], _h hashmap; all histories of %d operation(s) out of %d (set / pushBack / pushBackUnique / append / deleteAt / resize / reverse / sort / +copy / concat / minus / select range / apply / select filter / hashmap set with every live container as argument)%s; 12 fixed 1-3 step histories' % (L, len(OPS), ', each followed by a mutation probing for sharing' if tier == 'quick' else ''),
                  assumptions=['reference heap: lib/sqfref.py (lists with reference semantics, cycle attempts refused)', 'allocation failure is out of scope'], case_timeout=1800, keyfn=key, replayfn=rep, step_limit=2_000_000_000,
                  sample_fn=lambda rr: dict(history=rr.get('text')) if rr.get('text') else None)
    if not r: return []
    ob, recs = r
    for v in ob['violations']: v['trust_without_replay'] = True
    oblig.witness_check(ob, recs, lambda rr: rr['verdict'] == 'ok' and rr.get('ntrace'), 'a history compared with the reference')
    return [ob]
