"""C10 — front ends are total. Engine E2 (ll2py + symrt/z3) over the real tokenizers, preprocessor reader, bison parsers and preprocessor.

Obligations (bounds in each 'bounds' field):
  sqftok.loop.nN / cfgtok.loop.nN : N fully symbolic bytes through the complete token loop of the real SQF / config tokenizer
  pprd.loop.nN                    : N fully symbolic bytes (no NUL) through next() of the preprocessor's character reader
  compile.seed / config.seed / pp.seed : seed texts (truncations, one or two symbolic bytes) through the real parser / preprocessor
On every path: no out-of-bounds / invalid access, no C++ exception escaping, no UB event, termination within a step budget
proportional to the input length, token offsets consistent, and (front ends) result-or-diagnostic.
"""
import os, sys, time
import symrt as rt, loader, oblig, native
from symrt import S
import z3

TOK_ROOTS = ['w_sqftok_sizeof', 'w_sqftok_init', 'w_sqftok_next', 'w_cfgtok_sizeof', 'w_cfgtok_init', 'w_cfgtok_next',
             'w_pprd_sizeof', 'w_pprd_init', 'w_pprd_next', 'w_pprd_peek', 'w_pprd_off', 'w_pprd_line', 'w_pprd_col', 'w_pprd_move_back']
TOK_SRCS = ['/verif/harness/w_sqftok.cpp', '/verif/harness/w_cfgtok.cpp', '/verif/harness/w_pprd.cpp']

def sym_input(n, name='b', nonzero=False):
    buf = rt.new_obj(n, 'input', 'input bytes (exactly %d)' % n)
    bs = []
    for i in range(n):
        b = rt.fresh_bv('%s%d' % (name, i), 8)
        if nonzero: rt.assume(b != 0)
        rt.st(buf + i, 1, b); bs.append(b)
    return buf, bs

def tok_loop_case(N, which, nbytes):
    init, nxt, szf = N['w_%s_init' % which], N['w_%s_next' % which], N['w_%s_sizeof' % which]
    def case():
        buf, bs = sym_input(nbytes)
        tk = rt.new_obj(szf(), 'harness', 'tokenizer object')
        init(tk, buf, nbytes)
        out = rt.new_obj(40, 'harness')
        consumed = 0; toks = []
        for k in range(nbytes + 2):
            ty = nxt(tk, out)
            ty = ty & 0xFFFFFFFF
            ln, line, col, off = [rt.ld(out + 8 * i, 8) for i in range(4)]
            if off != consumed: rt.record_violation('assert', 'token offset %d differs from bytes consumed so far %d' % (off, consumed))
            if ln > nbytes - consumed: rt.record_violation('assert', 'token of length %d extends past the end of the %d-byte input' % (ln, nbytes))
            toks.append((ty, ln))
            if ty == 0:
                if consumed != nbytes: rt.record_violation('assert', 'eof token reported at offset %d of %d' % (consumed, nbytes))
                break
            if ty == 1: break
            if ln == 0: rt.record_violation('assert', 'non-terminal token of length 0 (no progress)'); break
            consumed += ln
        else:
            rt.record_violation('assert', 'more than n+1 tokens from n bytes')
        return dict(toks=toks)
    return case

def pprd_loop_case(N, nbytes):
    def case():
        buf, bs = sym_input(nbytes, nonzero=True)
        p = rt.new_obj(N['w_pprd_sizeof'](), 'harness', 'preprocessorfileinfo')
        N['w_pprd_init'](p, buf, nbytes)
        outs = []
        for k in range(nbytes + 2):
            c = N['w_pprd_next'](p)
            off = N['w_pprd_off'](p)
            if off > nbytes: rt.record_violation('assert', 'reader offset %d beyond content length %d' % (off, nbytes))
            outs.append(c)
        # after n+2 calls everything is consumed: the reader must deliver NUL at and after the end
        last = outs[-1]
        if last.__class__ is S: last = rt.concretize(last)
        if last & 0xFF != 0: rt.record_violation('assert', 'reader does not return NUL after the end of input')
        return dict(n=nbytes)
    return case

def _key(oid):
    def k(cid, v, r):
        import re
        m = re.sub(r'0x[0-9a-f]+|\d+', '#', v.get('msg', ''))[:80]
        return '%s:%s:%s' % (oid.split('.n')[0], v.get('kind'), m.replace(' ', '_'))
    return k

def _tok_replay(which, nbytes):
    def f(cid, v, r):
        inp = v.get('inputs') or r.get('inputs') or {}
        bs = bytes(inp.get('b%d' % i, 0) & 255 for i in range(nbytes))
        return dict(kind='tok', which=which, hex=bs.hex())
    return f

def replay(spec):
    if spec.get('kind') == 'tok':
        exe = native.build('replay_tok', TOK_SRCS + ['/verif/harness/replay_tok.cpp'])
        rc, out, err = native.run(exe, [{'sqftok': 'sqf', 'cfgtok': 'cfg', 'pprd': 'pprd'}[spec['which']], spec['hex']], timeout=10)
        ok, d = native.classify(rc, out, err)
        if not ok and rc == 3: ok, d = True, 'native replay: ' + out.strip().split('\n')[-1]
        return ok, d + ' [input bytes %s]' % spec['hex']
    if spec.get('kind') == 'vm':
        import vmreplay
        return vmreplay.replay(spec)
    return None, 'unknown replay kind'

def run(ctx):
    tier = ctx['tier']; obs = []
    py, info = loader.build_unit('tok', TOK_SRCS, TOK_ROOTS)
    m = loader.load_unit(py); N = m.NAMES
    funcs_tok = sorted(n for n in m.DEFINED if 'tokenizer' in n or 'preprocessorfileinfo' in n)
    common_assume = ['allocation failure is out of scope', 'input buffer is exactly N bytes (no terminator after it)']
    for which, label in (('sqftok', 'sqf::parser::sqf::tokenizer'), ('cfgtok', 'sqf::parser::config::tokenizer')):
        for nb in ([1, 2] if tier == 'quick' else [1, 2, 3]):
            oid = '%s.loop.n%d' % (which, nb)
            r = oblig.run(oid, [(oid, tok_loop_case(N, which, nb))], ctx, funcs_tok, 'all byte strings of length exactly %d (every byte fully symbolic); token loop of at most n+2 next() calls; step budget %d back-edges+calls' % (nb, 4000 * (nb + 2)),
                          assumptions=common_assume, case_timeout=1500 if nb >= 3 else 300, keyfn=_key(oid), replayfn=_tok_replay(which, nb), step_limit=4000 * (nb + 2), budget_is_violation='tokenizer does not finish within %d steps on a %d-byte input' % (4000 * (nb + 2), nb))
            if r:
                ob, recs = r
                oblig.witness_check(ob, recs, lambda rr: rr['verdict'] == 'ok' and len(rr.get('toks', [])) >= 2, 'a path that yields at least one real token and then eof')
                obs.append(ob)
    for nb in ([1, 2, 3] if tier == 'quick' else [1, 2, 3, 4]):
        oid = 'pprd.loop.n%d' % nb
        r = oblig.run(oid, [(oid, pprd_loop_case(N, nb))], ctx, funcs_tok, 'all NUL-free byte strings of length exactly %d; n+2 calls of preprocessorfileinfo::next()' % nb,
                      assumptions=common_assume + ['content contains no NUL byte (the reader uses NUL as its end marker)'], case_timeout=1500 if nb >= 4 else 300, keyfn=_key(oid), replayfn=_tok_replay('pprd', nb), step_limit=4000 * (nb + 2), budget_is_violation='reader does not finish within %d steps on a %d-byte input' % (4000 * (nb + 2), nb))
        if r:
            ob, recs = r
            oblig.witness_check(ob, recs, lambda rr: rr['verdict'] == 'ok', 'a path reaching the final NUL check')
            obs.append(ob)
    import C10_front
    obs += C10_front.run(ctx)
    return obs
