"""C14 — diagnostics name the true source file and line (and column) of the culprit.
(1) tok.pos: for every input of N symbolic bytes (no '#' so no #line directive) the real SQF tokenizer's positions are consistent: for consecutive
    tokens, line difference = number of newlines in between, same line => column difference = offset difference.
(2) layout.e2e: layout templates (k1 comment lines, block comment over k2 lines, #define continued over k3 lines, inactive #ifdef block of k4
    lines, active #ifdef, CRLF on/off; k symbolic in 0..3) followed by a fault at symbolic column: real preprocess -> parse -> execute; the [L|C|file]
    prefix of the runtime / parse diagnostic and of the stack trace must name the true line and column; __LINE__ / __FILE__ expand to where they are written."""
import re, z3
import symrt as rt, loader, vmh, oblig
from symrt import S
import C01, C10

def tokpos_case(N, n):
    def case():
        buf = rt.new_obj(n, 'input'); bs = []
        for i in range(n):
            b = rt.fresh_bv('b%d' % i, 8); rt.assume(b != 35); rt.st(buf + i, 1, b); bs.append(b)
        tk = rt.new_obj(N['w_sqftok_sizeof'](), 'harness'); N['w_sqftok_init'](tk, buf, n)
        out = rt.new_obj(40, 'harness'); toks = []
        for k in range(n + 2):
            ty = N['w_sqftok_next'](tk, out) & 0xFFFFFFFF
            ln, line, col, off = [rt.ld(out + 8 * i, 8) for i in range(4)]
            toks.append((ty, ln, line, col, off))
            if ty in (0, 1): break
        real = [t for t in toks if t[0] != 0]      # the eof marker is not a token of the source text
        for (t1, l1, li1, c1, o1), (t2, l2, li2, c2, o2) in zip(real, real[1:]):
            nl = 0
            for i in range(o1, o2):
                if bs[i] == 10: nl += 1
            if li2 - li1 != nl: rt.record_violation('assert', 'token at offset %d is reported on line %d, the previous token (offset %d) on line %d, but %d newline(s) lie between them' % (o2, li2, o1, li1, nl)); break
            if nl == 0 and c2 - c1 != o2 - o1: rt.record_violation('assert', 'tokens at offsets %d and %d on one line are reported in columns %d and %d' % (o1, o2, c1, c2)); break
        return dict(text='%d bytes' % n, n=len(toks))
    return case

def layout_case(h, kind):
    def case():
        vm = h.new_vm(); h.reset_obs()
        k1 = C01.choose('k1', 3); k2 = C01.choose('k2', 3); k3 = C01.choose('k3', 4); k4 = C01.choose('k4', 3); crlf = C01.choose('crlf', 2); col = C01.choose('col', 4)
        nl = b'\r\n' if crlf else b'\n'
        lines = []
        lines += [b'// comment %d' % i for i in range(k1)]
        if k2: lines += [b'/* block'] + [b' more %d' % i for i in range(k2 - 1)] + [b' end */ x0 = 1;'] if k2 > 1 else [b'/* one line */ x0 = 1;']
        if k3: lines += [b'#define MAC(a) a + \\'] + [b'  %d + \\' % i for i in range(k3 - 1)] + [b'  0']
        else: lines += [b'#define MAC(a) a + 0']
        # the inactive branch holds plain lines (k4 = 1) or a directive continued over two lines (k4 = 2): skipped text still counts as lines
        hidden = [b'hidden0 = 1;'] if k4 == 1 else [b'#define HID 1 + \\', b'  2'] if k4 == 2 else []
        lines += [b'#ifdef NOT_DEFINED'] + hidden + [b'#else', b'x1 = MAC(2);', b'#endif']
        lines += [b'#define ACTIVE', b'#ifdef ACTIVE', b'x2 = 3;', b'#endif']
        pad = b' ' * col
        if kind == 'runtime': fault = pad + b'[] select 5;'; fcol = col + 3
        elif kind == 'parse': fault = pad + b'x3 = 1 +* 2;'; fcol = col + 8
        elif kind == 'line': fault = pad + b'trace__ [__LINE__, __FILE__];'; fcol = None
        elif kind == 'macroline': fault = pad + b'x4 = MAC([] select 5);'; fcol = None
        lines.append(fault)
        true_line = len(lines)
        lines.append(b'x9 = 0;')
        src = nl.join(lines) + nl
        r = h.run(vm, src, 1)
        what = 'k1=%d k2=%d k3=%d k4=%d crlf=%d col=%d' % (k1, k2, k3, k4, crlf, col)
        if kind == 'line':
            if r == -2 or r == -3 or not h.traces: rt.record_violation('assert', '%s: layout failed to run (%d): %r' % (what, r, [l[2][:80] for l in h.logs[:2]]))
            else:
                v = h.traces[-1]
                if v[0] != float(true_line): rt.record_violation('assert', '%s: __LINE__ written on line %d expands to %r' % (what, true_line, v[0]))
                if b'harness' not in (v[1] if isinstance(v[1], bytes) else b''): rt.record_violation('assert', '%s: __FILE__ expands to %r' % (what, v[1]))
        else:
            errs = [l for l in h.logs if l[0] in (0, 1)]
            if not errs: rt.record_violation('assert', '%s: no diagnostic for the injected fault (result %d)' % (what, r))
            else:
                for lvl, code, msg in errs[:2]:
                    m = re.match(r'\[L(\d+)\|C(\d+)\|([^\]]*)\]', msg)
                    if not m: continue
                    L, Cc, F = int(m.group(1)), int(m.group(2)), m.group(3)
                    if L != true_line: rt.record_violation('assert', '%s: %s fault written on line %d is reported on line %d (%s)' % (what, kind, true_line, L, msg[:60].replace('\t', ' '))); break
                    if fcol is not None and Cc != fcol: rt.record_violation('assert', '%s: %s fault in column %d of line %d is reported in column %d' % (what, kind, fcol, true_line, Cc)); break
                    if 'harness' not in F: rt.record_violation('assert', '%s: fault reported in file %r' % (what, F)); break
        for v in rt.PS.violations: v['src'] = src.decode('latin1')
        return dict(text=what + ' ' + kind, n=true_line)
    return case

def include_case(h):
    def case():
        vm = h.new_vm(); h.reset_obs()
        ka = C01.choose('ka', 3); kb = C01.choose('kb', 3); kr = C01.choose('kr', 3); where = C01.choose('where', 5); crlf = C01.choose('crlf', 2)
        nl = b'\r\n' if crlf else b'\n'
        fault = b'  [] select 5;'
        b_lines = [b'// b %d' % i for i in range(kb)] + [b'xb = 1;'] + ([fault] if where == 0 else []) + [b'xb2 = 2;']
        a_lines = [b'xa = %d;' % i for i in range(ka)] + ([fault] if where == 1 else []) + [b'#include "b.hpp"'] + ([fault] if where == 2 else [b'xa3 = 3;']) + [b'xa4 = 4;']
        r_lines = [b'// root %d' % i for i in range(kr)] + ([fault] if where == 3 else []) + [b'#include "\\x\\mod\\a.hpp"'] + ([fault] if where == 4 else [b'xr = 1;']) + [b'trace__ [__LINE__, __FILE__];']
        rt.VFS.clear()
        rt.VFS[b'/p/mod/a.hpp'] = nl.join(a_lines) + nl; rt.VFS[b'/p/mod/b.hpp'] = nl.join(b_lines) + nl
        h.add_mapping(vm, b'/p/mod', b'/x/mod')
        files = {0: (b'/p/mod/b.hpp', b_lines), 1: (b'/p/mod/a.hpp', a_lines), 2: (b'/p/mod/a.hpp', a_lines), 3: (b'/p/root.sqf', r_lines), 4: (b'/p/root.sqf', r_lines)}
        fname, flines = files[where]
        true_line = [i for i, l in enumerate(flines) if l == fault][0] + 1
        src = nl.join(r_lines) + nl
        r = h.run_at(vm, src, b'/p/root.sqf', b'/root.sqf')
        what = 'ka=%d kb=%d kr=%d fault in %s crlf=%d' % (ka, kb, kr, ['b.hpp', 'a.hpp before its include', 'a.hpp after its include', 'root before the include', 'root after the include'][where], crlf)
        errs = [l for l in h.logs if l[0] in (0, 1)]
        if not errs: rt.record_violation('assert', '%s: no diagnostic for the injected fault (result %d)' % (what, r))
        for lvl, code, msg in errs[:2]:
            m = re.match(r'\[L(\d+)\|C(\d+)\|([^\]]*)\]', msg)
            if not m: continue
            L, Cc, F = int(m.group(1)), int(m.group(2)), m.group(3)
            if F.encode() != fname: rt.record_violation('assert', '%s: fault written in %s is reported in file %s' % (what, fname.decode(), F)); break
            if L != true_line: rt.record_violation('assert', '%s: fault written on line %d of %s is reported on line %d' % (what, true_line, fname.decode(), L)); break
            if Cc != 5: rt.record_violation('assert', '%s: fault in column 5 is reported in column %d' % (what, Cc)); break
        for v in rt.PS.violations: v['src'] = src.decode('latin1'); v['files'] = {k.decode(): val.decode('latin1') for k, val in rt.VFS.items()}
        return dict(text=what, n=true_line)
    return case

def replay(spec):
    import vmreplay
    if spec.get('kind') == 'layout':
        rc, out, err = vmreplay.run(['run', str(vmh.OPS_DEFAULT), '1', spec['hex']], timeout=20)
        ok, d = vmreplay.native.classify(rc, out, err)
        if ok: return ok, d
        logs = [l for l in out.split('\n') if l.startswith('LOG 0') or l.startswith('LOG 1')]
        tr = [l for l in out.split('\n') if l.startswith('TRACE')]
        return True, 'native run of the layout: %s' % ((logs or tr or ['(nothing)'])[0][:160])
    return None, 'no replay'

def run(ctx):
    tier = ctx['tier']; obs = []
    py, info = loader.build_unit('tok', C10.TOK_SRCS, C10.TOK_ROOTS)
    N = loader.load_unit(py).NAMES
    for n in ([1, 2] if tier == 'quick' else [1, 2, 3]):
        oid = 'tok.pos.n%d' % n
        r = oblig.run(oid, [(oid, tokpos_case(N, n))], ctx, ['sqf::parser::sqf::tokenizer::next / try_match / create_token'], 'all byte strings of length exactly %d without the byte 0x23 (no #line directive)' % n, assumptions=['allocation failure is out of scope'],
                      case_timeout=2400, keyfn=lambda cid, v, rr: 'tok.pos:' + re.sub(r'\d+', '#', v.get('msg', ''))[:80].replace(' ', '_'), step_limit=40000)
        if r:
            ob, recs = r
            for v in ob['violations']: v['trust_without_replay'] = True
            oblig.witness_check(ob, recs, lambda rr: rr['verdict'] == 'ok' and (rr.get('n') or 0) >= 2, 'a path with at least two tokens'); obs.append(ob)
    h = vmh.load()
    funcs = sorted(x for x in h.m.DEFINED if ('preprocessor' in x or 'tokenizer' in x or 'diag_info' in x) and len(x) < 140)
    def rep(cid, v, rr):
        for x in rr.get('violations', []):
            if x['msg'] == v['msg'] and x.get('src'): return dict(kind='layout', hex=x['src'].encode('latin1').hex())
        return None
    r = oblig.run('layout.e2e', [(k, layout_case(h, k)) for k in ('runtime', 'parse', 'line', 'macroline')], ctx, funcs, 'layouts: 0-2 // comment lines, block comment over 0-2 lines, #define continued over 0-3 lines, inactive #ifdef block of 0-2 lines (a plain line or a #define continued over two lines) with #else, active #ifdef, LF or CRLF, fault at column 0-3: 3*3*4*3*2*4 = 864 layouts x 4 fault kinds (runtime error, parse error, __LINE__/__FILE__, runtime error inside a macro argument)',
                  assumptions=['single file (no #include) in this obligation', 'allocation failure is out of scope'], case_timeout=2400, keyfn=lambda cid, v, rr: 'layout.e2e:%s:%s' % (cid, re.sub(r'\d+', '#', v.get('msg', '')[v.get('msg', '').find(': ') + 2:])[:70].replace(' ', '_')), replayfn=rep, step_limit=600_000_000,
                  sample_fn=lambda rr: dict(layout=rr.get('text')) if rr.get('text') else None)
    if r:
        ob, recs = r
        oblig.witness_check(ob, recs, lambda rr: rr['verdict'] == 'ok' and rr.get('n'), 'a layout whose diagnostic position was compared'); obs.append(ob)
    r = oblig.run('include.e2e', [('inc', include_case(h))], ctx, funcs, 'root.sqf includes \\x\\mod\\a.hpp (virtual path through a mapping) which includes b.hpp (relative): 0-2 leading lines in each file, LF / CRLF, a runtime fault at one of 5 places (in b, in a before / after its include, in root before / after its include): 3*3*3*5*2 = 270 layouts',
                  assumptions=['the file system behind std::ifstream / std::filesystem::path is the model in engine/vfs.py (trusted base)', 'allocation failure is out of scope'], case_timeout=2400,
                  keyfn=lambda cid, v, rr: 'include.e2e:%s' % re.sub(r'\d+', '#', v.get('msg', '')[v.get('msg', '').find(': ') + 2:])[:80].replace(' ', '_'), step_limit=600_000_000, sample_fn=lambda rr: dict(layout=rr.get('text')) if rr.get('text') else None)
    if r:
        ob, recs = r
        for v in ob['violations']: v['trust_without_replay'] = True
        oblig.witness_check(ob, recs, lambda rr: rr['verdict'] == 'ok' and rr.get('n'), 'an include layout whose diagnostic position was compared'); obs.append(ob)
    return obs
