"""C15 — config tree: values read back, inheritance lookup, merge / delete / append, acyclic.
Config texts from a grammar (classes A/B/C with symbolic base choice incl. self / forward / outer references, nesting, number / string / array fields,
+= and delete, one or two successive loads) go through the real config tokenizer + bison parser + apply_to_confighost; the real config operators are
then evaluated on all paths of length <= 2 over the name set (existing or not) and compared with a reference model (ordered own entries, single
base link resolved in the enclosing scopes, nearest definition wins, re-opening merges, delete hides, += appends). Every lookup must terminate
within the step budget: a cyclic inheritance relation shows as a budget hit."""
import z3, re
import symrt as rt, vmh, oblig
from symrt import S
import C01

# ---------------------------------------------------------------- reference model
class RC:
    def __init__(s, name, parent): s.name = name; s.parent = parent; s.base = None; s.entries = {}; s.order = []; s.deleted = set(); s.unspec = False
    def own(s, n):
        return s.entries.get(n.lower())
    def lookup(s, n, seen=None):
        n = n.lower(); c = s; hops = 0
        while c is not None and hops < 50:
            if n in c.deleted: return None          # the deletion also holds for the classes derived from c
            if n in c.entries: return c.entries[n]
            c = c.base; hops += 1
        return None
def find_base(scope, name):
    """base class is searched in the enclosing scopes, innermost first (including what those scopes inherit)"""
    sc = scope
    while sc is not None:
        e = sc.lookup(name)
        if isinstance(e, RC): return e
        sc = sc.parent
    return None
def apply(root, stmts, scope=None):
    scope = scope or root
    for st in stmts:
        k = st[0]
        if k == 'class':
            _, name, base, body = st
            cur = scope.own(name)
            if not isinstance(cur, RC):
                cur = RC(name, scope)
                if base is not None: cur.base = find_base(scope, base)     # resolved BEFORE the new class becomes visible
                scope.entries[name.lower()] = cur
                if name.lower() not in scope.order: scope.order.append(name.lower())
            elif base is not None:
                b = find_base(scope, base)
                if b is None: root.unspec = True        # re-opening with an unknown base: the statement does not say whether the old base stays
                c = b; cyc = False
                while c is not None:
                    if c is cur: cyc = True
                    c = c.base
                if not cyc: cur.base = b                # a class never becomes its own ancestor
            if body is not None: apply(root, body, cur)
        elif k == 'field':
            _, name, val = st
            scope.entries[name.lower()] = val
            if name.lower() not in scope.order: scope.order.append(name.lower())
            scope.deleted.discard(name.lower())
        elif k == 'append':
            _, name, val = st
            inh = scope.base.lookup(name) if scope.base is not None else None
            basev = list(inh) if isinstance(inh, list) else []
            scope.entries[name.lower()] = basev + list(val)
            if name.lower() not in scope.order: scope.order.append(name.lower())
        elif k == 'delete':
            scope.deleted.add(st[1].lower()); scope.entries.pop(st[1].lower(), None)
            if st[1].lower() in scope.order: scope.order.remove(st[1].lower())
def text(stmts, ind=''):
    out = ''
    for st in stmts:
        k = st[0]
        if k == 'class':
            _, name, base, body = st
            out += ind + 'class ' + name + ((' : ' + base) if base else '')
            out += ';\n' if body is None else ' {\n' + text(body, ind + '  ') + ind + '};\n'
        elif k == 'field':
            v = st[2]
            if isinstance(v, list): out += ind + '%s[] = {%s};\n' % (st[1], ', '.join(fmt(x) for x in v))
            else: out += ind + '%s = %s;\n' % (st[1], fmt(v))
        elif k == 'append': out += ind + '%s[] += {%s};\n' % (st[1], ', '.join(fmt(x) for x in st[2]))
        elif k == 'delete': out += ind + 'delete %s;\n' % st[1]
    return out
def fmt(v):
    if isinstance(v, str): return '"%s"' % v
    if isinstance(v, list): return '{' + ', '.join(fmt(x) for x in v) + '}'
    return '%g' % v

CASE = dict(maxsteps=0)
# ---------------------------------------------------------------- grammars
NAMES = ['A', 'B', 'C']
QSTEP = 1_000_000      # per lookup statement (the counter restarts before every query)
BASES = [None, 'A', 'B', 'C']
def body_opt(k, i, nested_name='N'):
    """entry-level variants; i makes the values distinct per statement"""
    return [[],
            [('field', 'v', float(i))],
            [('field', 'v', float(i)), ('field', 'arr', [float(i), [float(i + 1), 'x%d' % i]])],
            [('append', 'arr', [float(10 + i)])],
            [('delete', 'v')],
            [('field', 's', 't%d' % i), ('field', 'v', float(20 + i))],
            [('class', nested_name, None, [('field', 'w', float(30 + i))]), ('field', 'v', float(40 + i))],
            [('delete', 'v'), ('field', 'arr', [float(50 + i)]), ('field', 'v', float(60 + i))],
            # four own entries: deleting the first one later must leave the other three in their declaration order
            [('field', 'v', float(70 + i)), ('field', 'arr', [float(71 + i)]), ('field', 's', 'u%d' % i), ('class', nested_name, None, [('field', 'w', float(72 + i))])]][k]
NBODY = 9
def split_loads(stmts, k):
    return [stmts] if k == 0 or k >= len(stmts) else [stmts[:k], stmts[k:]]
def gen_inherit(sel, tier):
    """structure: which class is (re)defined with which base, in which order, over how many loads; every class statement carries its own marker field"""
    n = 3
    stmts = []
    for i in range(n):
        nm = 'A' if i == 0 else NAMES[sel('c%d' % i, 2 if i == 1 or (tier == 'quick' and i == 2) else 3)]
        base = BASES[sel('b%d' % i, 3 if i == 0 and tier == 'quick' else 4)]
        stmts.append(('class', nm, base, [('field', 'f%d' % i, float(i)), ('field', 'v', float(10 + i))] if i != 1 else [('field', 'f%d' % i, float(i))]))
    return split_loads(stmts, sel('split', 2) * 2 if tier == 'quick' else sel('split', n))
def gen_entries(sel, tier):
    """entries: A, B : A, then B re-opened (same or other base), C : B; bodies vary"""
    stmts = [('class', 'A', None, body_opt([1, 2, 5, 6][sel('k0', 4)] if tier == 'quick' else sel('k0', NBODY), 0)), ('class', 'B', 'A', body_opt([1, 2, 3, 4, 6, 7, 8][sel('k1', 7)] if tier == 'quick' else sel('k1', NBODY), 1)),
             ('class', 'B', [None, 'A'][sel('rb', 2)], body_opt(sel('k2', 8), 2))]
    if tier != 'quick': stmts.append(('class', 'C', 'B', body_opt([0, 2, 3, 4][sel('k3', 4)], 3)))
    else: stmts.append(('class', 'C', 'B', []))
    return split_loads(stmts, 2 if tier == 'quick' else sel('split', 3))
def gen_nested(sel, tier):
    """nested classes: base names resolved in the enclosing scopes; a nested class named like an outer one; re-opened nested classes"""
    inner = NAMES[sel('in', 3)]; ibase = BASES[sel('ib', 4)]
    if tier == 'quick': inner2 = 'C'; ibase2 = [None, 'A'][sel('ib2', 2)]; outer = 'B'
    else: inner2 = NAMES[sel('in2', 3)]; ibase2 = BASES[sel('ib2', 4)]; outer = ['B', 'C'][sel('out', 2)]
    stmts = [('class', 'A', None, [('field', 'v', 1.0), ('class', 'N', None, [('field', 'w', 2.0)])]),
             ('class', outer, [None, 'A'][sel('ob', 2)], [('class', inner, ibase, [('field', 'x', 3.0)]), ('class', inner2, ibase2, [('field', 'y', 4.0)] if sel('fw', 2) else None), ('field', 'v', 5.0)][:2 + (1 if tier == 'quick' else sel('ov', 2))])]
    re_ = sel('re', 3 if tier == 'quick' else 5)
    if re_: stmts.append(('class', outer, None, [('class', inner, BASES[re_ - 1] if tier != 'quick' else [inner, 'A'][re_ - 1], [('field', 'z', 6.0)])]))
    return split_loads(stmts, sel('split', 2) * 2)
GENS = dict(inherit=gen_inherit, entries=gen_entries, nested=gen_nested)
FIELDS = dict(inherit=['v', 'f0', 'f1', 'f2', 'f3', 'zz'], entries=['v', 'arr', 's', 'N', 'zz'], nested=['v', 'x', 'y', 'N', 'A', 'B', 'C', 'zz'])

def queries(kind, tier='thorough'):
    q = []
    tops = NAMES + ['Zz']
    for a in tops:
        q.append([a])
        for b in FIELDS[kind]:
            q.append([a, b])
    if kind == 'nested':
        for o in ('B', 'C') if tier != 'quick' else ('B',):
            for i in NAMES:
                for f in ('v', 'w', 'x', 'y', 'z', 'N'): q.append([o, i, f])
    if kind == 'entries':
        for a in NAMES: q.append([a, 'N', 'w'])
    return q
def ref_answer(root, path):
    cur = root
    for i, n in enumerate(path):
        if not isinstance(cur, RC): return ('null',)
        cur = cur.lookup(n)
        if cur is None: return ('null',)
    if isinstance(cur, RC):
        hier = []; c = cur
        while c is not None: hier.append(c.name.lower()); c = c.parent
        return ('class', cur.name.lower(), cur.base.name.lower() if cur.base else '', [x for x in cur.order], [x for x in cur.order if isinstance(cur.entries[x], RC)], hier[::-1][1:])
    if isinstance(cur, list): return ('array', cur)
    if isinstance(cur, str): return ('text', cur)
    return ('number', cur)

QF = ('c15_q = { private _c = _this; private _k = isClass _c; private _b = if (_k) then { inheritsFrom _c } else { configNull }; trace__ [_k, isNumber _c, isText _c, isArray _c, if (_k) then { toLower configName _c } else { "" }, if (isNull _b) then { "" } else { toLower configName _b }, '
      'if (isNumber _c) then { getNumber _c } else { -1 }, if (isText _c) then { getText _c } else { "" }, if (isArray _c) then { getArray _c } else { [] }, if (_k) then { count _c } else { -1 }, '
      'if (_k) then { private _n = []; for "_i" from 0 to (count _c - 1) do { _n pushBack toLower configName (_c select _i) }; _n } else { [] }, '
      'if (_k) then { private _n = []; { _n pushBack toLower configName _x } forEach ("true" configClasses _c); _n } else { [] }, '
      'if (_k) then { private _n = []; { _n pushBack toLower configName _x } forEach (configHierarchy _c); _n } else { [] }] };')
def vm_query(path):
    return '(configFile' + ''.join(' >> "%s"' % n for n in path) + ') call c15_q;'

def decode(t):
    isC, isN, isT, isA, name, base, num, tx, arr, cnt, order, classes, hier = t
    d = lambda x: x.decode('latin1') if isinstance(x, bytes) else [d(y) for y in x] if isinstance(x, list) else x
    if isC:
        if cnt != len(order): return ('class-count-mismatch', cnt, d(order))
        return ('class', d(name), d(base), d(order), d(classes), d(hier)[1:])
    return ('number', num) if isN else ('text', d(tx)) if isT else ('array', d(arr)) if isA else ('null',)

def cfg_case(h, kind, tier):
    def case():
        sel = lambda name, n: C01.choose(name, n)
        loads = GENS[kind](sel, tier)
        vm = h.new_vm(); h.reset_obs()
        root = RC('', None); h.run(vm, QF)
        txt = []
        for ld_ in loads:
            t = text(ld_); txt.append(t)
            r = h.parse_config(vm, t)
            if r != 1 and not h.errors():
                rt.record_violation('assert', 'config text of the grammar does not load and no diagnostic is given: %r' % t); return dict(text=' ||| '.join(txt), n=0)
            apply(root, ld_)
        n = 0
        for path in queries(kind, tier):
            h.reset_obs(); CASE['maxsteps'] = max(CASE['maxsteps'], rt.STEP[0]); rt.STEP[0] = 0
            r = h.run(vm, vm_query(path))
            exp = ref_answer(root, path)
            if not h.traces:
                rt.record_violation('assert', 'lookup %s produced no result (result %d, %s) for config %r' % (' >> '.join(path), r, [l[2][:80] for l in h.errors()[:1]], ' ||| '.join(txt))); break
            got = decode(h.traces[-1])
            if got != exp and not root.unspec:
                rt.record_violation('assert', 'configFile >> %s gives %r, reference %r, for config %r' % (' >> '.join(path), got, exp, ' ||| '.join(txt))); break
            n += 1
        for v in rt.PS.violations:
            v['cfg'] = txt
            v['spec'] = dict(kind='cfg', cfg=txt, queries=queries(kind, tier), **({} if root.unspec else dict(expect=[render_expected(ref_answer(root, q)) for q in queries(kind, tier)])))
        return dict(text=' ||| '.join(txt)[:300], n=n, maxsteps=CASE['maxsteps'], loads=txt)
    return case

FIXED = {
    'self.base': 'class A { v = 1; };\nclass A : A { w = 2; };\n',
    'nested.same.name.base': 'class Defaults { v = 1; };\nclass V { class Defaults : Defaults { w = 2; }; };\n',
    'mutual': 'class A : B { v = 1; };\nclass B : A { w = 2; };\n',
    'forward': 'class B : A { w = 2; };\nclass A { v = 1; };\n',
    'rebase': 'class A { v = 1; };\nclass C { v = 3; };\nclass B : A { };\nclass B : C { };\n',
}
def fixed_case(h, name):
    def case():
        vm = h.new_vm(); h.reset_obs()
        ok = h.parse_config(vm, FIXED[name]); h.run(vm, QF)
        for path in queries('nested'):
            h.reset_obs(); rt.STEP[0] = 0
            r = h.run(vm, vm_query(path))
            if not h.traces and not h.errors(): rt.record_violation('assert', 'lookup %s produced neither a result nor a diagnostic for config %r' % (' >> '.join(path), FIXED[name])); break
        return dict(text=FIXED[name], n=1)
    return case

def _key(oid):
    import re
    def k(cid, v, rr):
        m = v.get('msg', '')
        m2 = re.match(r"configFile >> (.*?) gives \('([a-z-]+)'.*reference \('([a-z]+)'", m)
        if m2: return '%s:%s->%s' % (oid, m2.group(2), m2.group(3))
        return '%s:%s' % (oid, re.sub(r'[^A-Za-z]+', '_', m)[:60])
    return k

VALUES = [('n1', '1', 1.0), ('n2', '-2.5', -2.5), ('n3', '1e3', 1000.0), ('n4', '0.125', 0.125), ('n5', '0x1F', 31.0), ('n6', '-7', -7.0), ('n7', '16777216', 16777216.0),
          ('s1', '"abc"', 'abc'), ('s2', '"a""b"', 'a"b'), ('s3', '""', ''), ('s4', '"x y;{}"', 'x y;{}'), ('s5', "'q'", 'q'),
          ('a1', '{1, 2}', [1.0, 2.0]), ('a2', '{}', []), ('a3', '{1, {2, "y"}, {}}', [1.0, [2.0, 'y'], []]), ('a4', '{"a", {"b", {3}}}', ['a', ['b', [3.0]]]), ('a5', '{-1.5, "p""q"}', [-1.5, 'p"q'])]
def values_case(h, which):
    def case():
        vm = h.new_vm(); h.reset_obs(); h.run(vm, QF)
        ents = [VALUES[i] for i in which]
        txt = 'class V {\n' + ''.join('  %s%s = %s;\n' % (n, '[]' if isinstance(e, list) else '', t) for n, t, e in ents) + '};\nclass W : V { };\n'
        if h.parse_config(vm, txt) != 1:
            rt.record_violation('assert', 'config text does not load: %r (%s)' % (txt, [l[2][:80] for l in h.errors()[:1]])); return dict(text=txt, n=0)
        qs = []; exp = []
        for cls in ('V', 'W'):
            for n, t, e in ents:
                qs.append([cls, n]); exp.append(('array', e) if isinstance(e, list) else ('text', e) if isinstance(e, str) else ('number', e))
        for q, e in zip(qs, exp):
            h.reset_obs(); rt.STEP[0] = 0
            h.run(vm, vm_query(q))
            got = decode(h.traces[-1]) if h.traces else None
            if got != e: rt.record_violation('assert', 'configFile >> %s reads back %r, written %r (config %r)' % (' >> '.join(q), got, e, txt)); break
        for v in rt.PS.violations: v['spec'] = dict(kind='cfg', cfg=[txt], queries=qs, expect=[render_expected(x) for x in exp])
        return dict(text=txt, n=len(qs))
    return case

def _replayfn(kind, tier):
    def f(cid, v, rr):
        if v.get('spec'): return v['spec']
        inp = v.get('inputs') or rr.get('inputs') or {}
        loads = GENS[kind](lambda name, n: int(inp.get(name, 0)), tier)
        return dict(kind='cfg', cfg=[text(l) for l in loads], queries=queries(kind, tier))
    return f

def replay(spec):
    """native sanitized build: load the config texts, run the lookups, compare with the reference rendering"""
    import vmreplay, native, diffvm
    args = ['cfgq', str(len(spec['cfg']))] + [t.encode('latin1').hex() for t in spec['cfg']] + [QF.encode().hex()] + [vm_query(q).encode().hex() for q in spec['queries']]
    rc, out, err = vmreplay.run(args, timeout=60)
    ok, d = native.classify(rc, out, err)
    if ok: return ok, d
    tr = [l[6:] for l in out.split('\n') if l.startswith('TRACE ')]
    if 'expect' not in spec: return False, 'native run finished without a fault'
    if len(tr) != len(spec['expect']): return True, 'native run produced %d lookup results, expected %d' % (len(tr), len(spec['expect']))
    for q, t, e in zip(spec['queries'], tr, spec['expect']):
        if e is not None and t != e: return True, 'native lookup configFile >> %s gives %s, reference %s' % (' >> '.join(q), t, e)
    return False, 'native run agrees with the reference'
def render_expected(ans):
    """reference answer -> the text of the traced array as the VM prints it"""
    import diffvm
    b = lambda x: x.encode('latin1')
    blist = lambda l: [b(x) if isinstance(x, str) else blist(x) if isinstance(x, list) else x for x in l]
    k = ans[0]
    row = [k == 'class', k == 'number', k == 'text', k == 'array', b(ans[1]) if k == 'class' else b'', b(ans[2]) if k == 'class' else b'', ans[1] if k == 'number' else -1.0, b(ans[1]) if k == 'text' else b'',
           blist(ans[1]) if k == 'array' else [], float(len(ans[3])) if k == 'class' else -1.0, blist(ans[3]) if k == 'class' else [], blist(ans[4]) if k == 'class' else [], blist([''] + ans[5]) if k == 'class' else []]
    return diffvm.render(row)

def run(ctx):
    tier = ctx['tier']; h = vmh.load(); obs = []
    funcs = sorted(x for x in h.m.DEFINED if ('confighost' in x or 'confignav' in x or 'ops_config' in x or '6config6parser' in x) and len(x) < 140)
    BOUNDS = dict(inherit='%d class statements at top level, the first named A, the others A/B%s, each with base none/A/B/C (self, forward, unknown and repeated definitions included) and a per-statement marker field plus an optional shared field v; split over one or two loads at every position' % ((3, ' (third: A/B)') if tier == 'quick' else (3, '/C')),
                  entries='class A {..}; class B : A {..}; class B [: A] {..}; class C : B {%s}; every body one of %d variants (empty, number, number + nested array, +=, delete, string, nested class, delete-then-redefine, four entries); one or two loads' % ('' if tier == 'quick' else '..', NBODY),
                  nested='class A { v; class N {..} }; class B|C [: A] { class <A|B|C> [: none|A|B|C] {..}; class <A|B|C> [: ..] {..} or forward declaration; [v] }; optionally the outer class re-opened with the inner class re-based; one or two loads')
    for kind in ('inherit', 'entries', 'nested'):
        oid = 'cfg.' + kind
        r = oblig.run(oid, [(oid, cfg_case(h, kind, tier))], ctx, funcs, 'config grammar "%s": %s; then %d lookup paths (existing or not), each read back with isClass/isNumber/isText/isArray, getNumber/getText/getArray, configName, inheritsFrom, count/select, configClasses, configHierarchy' % (kind, BOUNDS[kind], len(queries(kind, tier))),
                      assumptions=['reference model: props/C15.py (written from the property statement; a base name is resolved among the own entries of the enclosing classes, innermost first; an unknown base leaves the class without base)', 'allocation failure is out of scope', 'class and entry names differ in more than case'], case_timeout=3400,
                      keyfn=_key(oid), replayfn=_replayfn(kind, tier), step_limit=QSTEP, budget_is_violation='a config lookup does not terminate (cyclic inheritance?)', jobs=16, sample_fn=lambda rr: dict(config=rr.get('text')) if rr.get('text') else None)
        if r:
            ob, recs = r
            oblig.witness_check(ob, recs, lambda rr: rr['verdict'] == 'ok' and (rr.get('n') or 0) > 10, 'a config whose lookups were compared'); obs.append(ob)
    groups = [list(range(i, min(i + 4, len(VALUES)))) for i in range(0, len(VALUES), 4)]
    r = oblig.run('cfg.values', [('values%d' % i, values_case(h, g)) for i, g in enumerate(groups)], ctx, funcs, '%d literal entries (decimal, negative, exponent, hexadecimal numbers; strings with doubled quotes, empty, single-quoted; flat, empty and nested arrays), read back from the defining class and from a derived class' % len(VALUES),
                  assumptions=['strtod/strtol are the libc functions (called through ctypes)', 'allocation failure is out of scope'], case_timeout=600, keyfn=lambda cid, v, rr: 'cfg.values:%s' % re.sub(r'[^A-Za-z0-9>]+', '_', v.get('msg', ''))[:60],
                  replayfn=lambda cid, v, rr: v.get('spec'), step_limit=QSTEP, budget_is_violation='a config lookup does not terminate')
    if r:
        ob, recs = r
        oblig.witness_check(ob, recs, lambda rr: rr['verdict'] == 'ok' and (rr.get('n') or 0) > 3, 'a config whose values were read back'); obs.append(ob)
    r = oblig.run('cfg.cycles', [(k, fixed_case(h, k)) for k in FIXED], ctx, funcs, '%d configs that try to make the inheritance relation cyclic or re-bind a base; all 36 lookup paths must terminate' % len(FIXED), assumptions=['allocation failure is out of scope'], case_timeout=900,
                  keyfn=lambda cid, v, rr: 'cfg.cycles:%s' % cid, replayfn=lambda cid, v, rr: dict(kind='cfg', cfg=[FIXED[cid]], queries=queries('nested')), step_limit=QSTEP, budget_is_violation='a config lookup does not terminate (cyclic inheritance)')
    if r:
        ob, recs = r
        oblig.witness_check(ob, recs, lambda rr: rr['verdict'] == 'ok', 'a config whose lookups terminated'); obs.append(ob)
    return obs
