"""C18 — C API contract: truthful return codes, complete logging, reusable instances.
The real sqfvm_* entry points (src/export/sqfvm.cpp) are driven through histories of API calls chosen by symbolic selectors, with a fully symbolic
type byte, valid / null / garbage handles and classified inputs. system_clock::now() is a virtual clock."""
import z3
import symrt as rt, loader, vmh, oblig
from symrt import S
import C01

API_ROOTS = ['w_api_cb', 'w_api_create', 'w_api_call', 'w_api_load_config', 'w_api_status', 'w_api_destroy']
def load_api():
    srcs = [s_ for s_ in vmh.VM_SOURCES if not s_.endswith('w_vm.cpp')] + ['export/sqfvm.cpp', 'operators/ops_osspecific.cpp', '/verif/harness/w_api.cpp']
    py, info = loader.build_unit('api', srcs, API_ROOTS)
    m = loader.load_unit(py)
    return m, info

INPUTS = {   # name: (text, expected return code for type 's')
    'ok': (b'gv_a = 1 + 2; diag_log gv_a;', 0),
    'empty': (b'', 0),
    'runtime_error': (b'diag_log 1; [] select 5; diag_log 2;', -6),
    'parse_error': (b'diag_log ( 1 + ;', -3),
    'pp_error': (b'#define A(x,y) x\nA(1)\n', -2),
    'pp_warning': (b'#define X 1\n#define X 2\ndiag_log X;', 0),
    'uses_global': (b'diag_log str [isNil "gv_a", isNil "_loc"]; _loc = 1;', 0),
    'spawn_pending': (b'[] spawn { sleep 0.001; gv_b = 7 }; diag_log 3;', 0),
    'config_read': (b'diag_log str (getNumber (configFile >> "CfgA" >> "v"));', 0),
    # a script spawned by a call that then fails is discarded with the failed run: it must never execute in a later call
    'spawn_then_error': (b'[] spawn { gv_leak = 1; diag_log "LEAKED-SCRIPT"; }; diag_log 1; [] select 5;', -6),
    'probe_leak': (b'diag_log str [isNil "gv_leak"];', 0),
}
CONFIG = b'class CfgA { v = 5; };'
# assembly texts for type 'a': (text, documented return code)
ASM = [(b'push 1 endStatement', 0), (b'push "x" callUnary diag_log endStatement', 0), (b'push [1, {push 2 endStatement}] assignTo "gv_c" endStatement', 0), (b'push', -3), (b'callUnary', -3), (b'push 1 callBinary', -3), (b'$$ garbage', -3), (b'', 0)]

def hist_case(m, length):
    N = m.NAMES
    def case():
        logs = []
        def cb(user, call, sev, msg, n):
            logs.append((user, call, vmh.s32(sev), rt.read_bytes(msg, n).decode('latin1')))
        rt.EXT['verif_api_log'] = cb
        st = {'t': 1_700_000_000 * 10**9}
        def clk(): st['t'] += 1_000_000; return st['t']
        rt.HOOKS['clock'] = clk
        USER = 0xAAA0; inst = N['w_api_create'](USER, 0.5, 1)
        rt.TRACK_UNINIT[0] = True      # stack objects of the API entry points start uninitialised (empty-optional dereference shows as such a read)
        garbage = rt.make_bytes(b'NOPE' + bytes(60), 'harness', 'not an instance')
        hist = []
        names = list(INPUTS)
        have_config = False; have_global = False
        try:
            for step in range(length):
                op = C01.choose('op%d' % step, 6)
                calld = 0xC000 + step
                del logs[:]
                tag = 'after %s; ' % ' ; '.join(hist)
                if op == 0 or op == 1:
                    k = C01.choose('in%d' % step, len(names)); nm = names[k]; text, exp = INPUTS[nm]
                    buf = rt.make_bytes(text, 'input', 'code')
                    if op == 0:
                        hist.append('call s %s' % nm)
                        r = vmh.s32(N['w_api_call'](inst, calld, ord('s'), buf, len(text)))
                        if r != exp: rt.record_violation('assert', tag + 'sqfvm_call(%s) returned %d, documented %d' % (nm, r, exp))
                        for u, c, sev, msg in logs:
                            if u != USER or c != calld: rt.record_violation('assert', tag + 'diagnostic %r of sqfvm_call(%s) delivered with user_data %#x / call_data %#x instead of %#x / %#x' % (msg[:60], nm, u, c, USER, calld)); break
                        if exp in (-2, -3, -6) and not [l for l in logs if l[2] in (0, 1)]: rt.record_violation('assert', tag + 'sqfvm_call(%s) failed with %d but no error diagnostic reached the callback' % (nm, r))
                        if nm == 'ok' and r == 0: have_global = True
                        if nm != 'spawn_then_error' and [1 for u, c, sev, msg in logs if 'LEAKED-SCRIPT' in msg]: rt.record_violation('assert', tag + 'sqfvm_call(%s) executed a script that an earlier, failed call had spawned (pending scripts must not carry over)' % nm)
                        if nm == 'probe_leak' and r == 0:
                            out = [msg for u, c, sev, msg in logs if 'DIAG_LOG' in msg]
                            if not out or '[true]' not in out[0]: rt.record_violation('assert', tag + 'a script spawned by an earlier failed call has run: isNil "gv_leak" gives %r' % (out[:1],))
                        if nm == 'uses_global' and r == 0:
                            out = [msg for u, c, sev, msg in logs if 'DIAG_LOG' in msg]
                            want = '[%s,true]' % ('false' if have_global else 'true')
                            if not out or want not in out[0]: rt.record_violation('assert', tag + 'globals must persist and locals must not: got %r, expected %s' % (out[:1], want))
                        if nm == 'config_read' and r == 0:
                            out = [msg for u, c, sev, msg in logs if 'DIAG_LOG' in msg]
                            want = '5' if have_config else '0'
                            if not out or not out[0].rstrip().endswith(want): rt.record_violation('assert', tag + 'loaded config must persist: got %r, expected %s' % (out[:1], want))
                        if nm in ('ok', 'pp_warning') and r == 0 and [l for l in logs if l[2] in (0, 1)]: rt.record_violation('assert', tag + 'successful call blamed with %r' % [l[3][:80] for l in logs if l[2] in (0, 1)][:1])
                    else:
                        t = rt.fresh_bv('type%d' % step, 8)
                        rt.assume(z3.And(t.e != ord('s'), t.e != ord('a'), t.e != ord('p'), t.e != ord('1'), t.e != ord('c')))
                        hist.append('call <unknown type> %s' % nm)
                        r = vmh.s32(N['w_api_call'](inst, calld, t.zext(32), buf, len(text)))
                        exp2 = -2 if nm == 'pp_error' else -5
                        if r != exp2: rt.record_violation('assert', tag + 'sqfvm_call with an unknown type byte returned %d, documented %d' % (r, exp2))
                elif op == 2:
                    hist.append('load_config')
                    r = vmh.s32(N['w_api_load_config'](inst, rt.make_bytes(CONFIG, 'input'), len(CONFIG)))
                    if r != 0: rt.record_violation('assert', tag + 'sqfvm_load_config returned %d for a valid config' % r)
                    have_config = True
                elif op == 3:
                    which = C01.choose('h%d' % step, 2)
                    hptr = 0 if which == 0 else garbage
                    hist.append('call on %s handle' % ('null' if which == 0 else 'garbage'))
                    text = INPUTS['ok'][0]
                    r1 = vmh.s32(N['w_api_call'](hptr, calld, ord('s'), rt.make_bytes(text, 'input'), len(text)))
                    r2 = vmh.s32(N['w_api_status'](hptr)); r3 = vmh.s32(N['w_api_load_config'](hptr, rt.make_bytes(CONFIG, 'input'), len(CONFIG)))
                    if (r1, r2, r3) != (-1, -1, -1): rt.record_violation('assert', tag + 'invalid handle must give -1 from call/status/load_config, got %r' % ((r1, r2, r3),))
                elif op == 5:
                    # type 'p': preprocess only; the preprocessed text is delivered to the callback, return code 0 / -2
                    k = C01.choose('pin%d' % step, 3); nm = ['ok', 'pp_error', 'empty'][k]; text, _ = INPUTS[nm]
                    hist.append('call p %s' % nm)
                    r = vmh.s32(N['w_api_call'](inst, calld, ord('p'), rt.make_bytes(text, 'input', 'code'), len(text)))
                    exp3 = -2 if nm == 'pp_error' else 0
                    if r != exp3: rt.record_violation('assert', tag + "sqfvm_call(type 'p', %s) returned %d, documented %d" % (nm, r, exp3))
                    for u, c, sev, msg in logs:
                        if u != USER or c != calld: rt.record_violation('assert', tag + "diagnostic of sqfvm_call(type 'p') delivered with user_data %#x / call_data %#x" % (u, c)); break
                elif op == 4:
                    hist.append('load_config <malformed>')
                    bad = b'class A { v = ; };'
                    r = vmh.s32(N['w_api_load_config'](inst, rt.make_bytes(bad, 'input'), len(bad)))
                    if r != -3: rt.record_violation('assert', tag + 'sqfvm_load_config returned %d for an unparsable config (documented -3)' % r)
                sts = vmh.s32(N['w_api_status'](inst))
                if sts != 0: rt.record_violation('assert', 'after %s: sqfvm_status is %d, the instance must be idle (0) after every call' % (' ; '.join(hist), sts))
                if rt.PS.violations: break
            if not rt.PS.violations: N['w_api_destroy'](inst)
        finally:
            rt.HOOKS.pop('clock', None); rt.TRACK_UNINIT[0] = False
        return dict(text=' ; '.join(hist), n=len(hist))
    return case

def asm_case(m, k):
    """type 'a' (SQF assembly text) on a fresh instance: documented return code, a diagnostic for every failure, no crash, no hang"""
    N = m.NAMES
    text, exp = ASM[k]
    def case():
        logs = []
        def cb(user, call, sev, msg, n): logs.append((user, call, vmh.s32(sev), rt.read_bytes(msg, n).decode('latin1') if n else ''))
        rt.EXT['verif_api_log'] = cb
        t = {'v': 1_700_000_000_000_000_000}
        def clk(): t['v'] += 1_000_000; return t['v']
        rt.HOOKS['clock'] = clk
        try:
            USER = 0xAAA0; inst = N['w_api_create'](USER, 0.5, 1)
            r = vmh.s32(N['w_api_call'](inst, 0xC0DE, ord('a'), rt.make_bytes(text, 'input', 'code'), len(text)))
            if r != exp: rt.record_violation('assert', "sqfvm_call(type 'a', %r) returned %d, documented %d" % (text, r, exp))
            if exp in (-3, -6) and r == exp and not [l for l in logs if l[2] in (0, 1)]: rt.record_violation('assert', "sqfvm_call(type 'a', %r) failed with %d but no error diagnostic reached the callback" % (text, r))
            sts = vmh.s32(N['w_api_status'](inst))
            if sts != 0: rt.record_violation('assert', "after sqfvm_call(type 'a', %r): sqfvm_status is %d" % (text, sts))
        finally: rt.HOOKS.pop('clock', None)
        return dict(text="call a %r" % text, n=1)
    return case

def replay(spec):
    return None, 'no native replay'

def run(ctx):
    tier = ctx['tier']
    m, info = load_api()
    funcs = sorted(n for n in m.DEFINED if 'sqfvm_' in n or 'dllexports' in n)
    L = 2 if tier == 'quick' else 3
    r = oblig.run('api.hist', [('len%d' % L, hist_case(m, L)), ('len1', hist_case(m, 1))], ctx, funcs, 'all histories of %d API operations on one instance out of {call type s with 9 classified inputs, call with a symbolic unknown type byte, load_config, call/status/load_config on a null or garbage handle, malformed load_config}, sqfvm_status after each; create/destroy around' % L,
                  assumptions=['system_clock::now() is a virtual clock (+1 ms per reading)', 'sqfvm_create_instance_basic operator set', 'allocation failure is out of scope'], case_timeout=2400,
                  keyfn=lambda cid, v, rr: 'api:' + v.get('msg', '')[v.get('msg', '').find('; ') + 2:][:100].replace(' ', '_') if v.get('kind') == 'assert' else 'api:%s:%s' % (v.get('kind'), v.get('msg', '')[:60].replace(' ', '_')),
                  step_limit=600_000_000, sample_fn=lambda rr: dict(history=rr.get('text')) if rr.get('text') else None)
    obs = []
    if r:
        ob, recs = r
        for v in ob['violations']: v['trust_without_replay'] = True
        oblig.witness_check(ob, recs, lambda rr: rr['verdict'] == 'ok' and rr.get('n'), 'a history run to destroy'); obs.append(ob)
    def akey(cid, v, rr):
        if v.get('kind') == 'nontermination': return 'api.asm:hang'
        if v.get('kind') in ('memory', 'exception', 'abort', 'ub', 'alloc'): return 'api.asm:crash'
        if 'returned 0, documented -3' in v.get('msg', ''): return 'api.asm:parse-error-returns-0'
        return 'api.asm:' + v.get('msg', '')[:80].replace(' ', '_')
    r = oblig.run('api.asm', [('asm%d' % k, asm_case(m, k)) for k in range(len(ASM))], ctx, funcs, "sqfvm_call with type 'a' (SQF assembly) on a fresh instance: %d texts (valid programs, truncated instructions, a character outside the assembly alphabet, empty)" % len(ASM),
                  assumptions=['system_clock::now() is a virtual clock (+1 ms per reading)', 'allocation failure is out of scope'], case_timeout=600, keyfn=akey, step_limit=30_000_000,
                  budget_is_violation="sqfvm_call(type 'a') does not return", sample_fn=lambda rr: dict(call=rr.get('text')) if rr.get('text') else None)
    if r:
        ob, recs = r
        for v in ob['violations']: v['trust_without_replay'] = True
        oblig.witness_check(ob, recs, lambda rr: rr.get('n'), 'an assembly call that returned'); obs.append(ob)
    return obs
