"""C06 — str / literals round-trip.
(1) str.quote: for every NUL-free byte string s of length <= N: from_sqf(to_string_sqf(s)) == s, and the real SQF tokenizer reads the quoted text as
    exactly one double-quoted string token spanning it (so the compiler sees the same literal).
(2) code.roundtrip: for expression trees with three operators of symbolic precedence level / arity class in all five shapes, compile(str code) has
    the same instruction listing as the code itself; likewise the CLI pretty printer's output.
(3) value.roundtrip: nested arrays of symbolic booleans, symbolic-byte strings and code: (call compile str v) isEqualTo v, through the real VM.
(4) hex.literal: $h.. / 0xh.. literals with symbolic hex digits evaluate to sum(d_i * 16^i).
Not claimed: decimal number text <-> float (decided by snprintf("%g") / strtod in libc, which are not in the IR)."""
import itertools, z3
import loader, symrt as rt, vmh, oblig, diffvm, sqfref
from symrt import S
from diffvm import Prog
from C02 import G, N, T
import C01

def quote_case(h, n):
    def case():
        Nn = h.N
        buf = rt.new_obj(max(n, 1), 'input', 'string payload')
        bs = []
        for i in range(n):
            b = rt.fresh_bv('c%d' % i, 8); rt.assume(b != 0); rt.st(buf + i, 1, b); bs.append(b)
        cap = 2 * n + 4
        q = rt.new_obj(cap, 'harness', 'quoted text (exactly the returned length is read back)')
        qn = Nn['w_str_quote'](buf, n, q, cap)
        if qn.__class__ is S: qn = rt.concretize(qn)
        back = rt.new_obj(cap, 'harness')
        # give from_sqf exactly the quoted text
        q2 = rt.new_obj(qn, 'input', 'quoted text'); rt.memcpy(q2, q, qn)
        bn = Nn['w_str_unquote'](q2, qn, back, cap)
        if bn.__class__ is S: bn = rt.concretize(bn)
        if bn != n: rt.record_violation('assert', 'unquoting the quoted text yields %d bytes instead of %d' % (bn, n))
        else:
            for i in range(n):
                rt.check(rt.ld(back + i, 1) == bs[i], 'byte %d of the unquoted text differs from the original' % i)
        # the tokenizer must see one t_string_double token covering the whole quoted text
        tk = rt.new_obj(h.tokN['w_sqftok_sizeof'](), 'harness')
        h.tokN['w_sqftok_init'](tk, q2, qn)
        out = rt.new_obj(40, 'harness')
        ty = h.tokN['w_sqftok_next'](tk, out) & 0xFFFFFFFF
        ln = rt.ld(out, 8)
        if ty != 19 or ln != qn: rt.record_violation('assert', 'the tokenizer reads the quoted text as token type %d of length %d (expected one double-quoted string of length %d)' % (ty, ln, qn))
        return dict(text='str of %d symbolic bytes' % n, n=n)
    return case

def shapes3(a, b, c, l):
    """the five binary tree shapes with operators a, b, c (in source order) over leaves l[0..3]"""
    B = lambda o, x, y: ('bin', o, x, y)
    return [B(c, B(b, B(a, l[0], l[1]), l[2]), l[3]), B(c, B(a, l[0], B(b, l[1], l[2])), l[3]), B(b, B(a, l[0], l[1]), B(c, l[2], l[3])), B(a, l[0], B(c, B(b, l[1], l[2]), l[3])), B(a, l[0], B(b, l[1], B(c, l[2], l[3])))]

def full_parens(e):
    k = e[0]
    if k == 'bin': return '(' + full_parens(e[2]) + ' ' + e[1] + ' ' + full_parens(e[3]) + ')'
    if k == 'un': return '(' + e[1] + ' ' + full_parens(e[2]) + ')'
    if k == 'arr': return '[' + ', '.join(full_parens(x) for x in e[1]) + ']'
    if k == 'code': return '{' + full_parens(e[1]) + '}'
    return e[1]

def code_case(h, vm, ops, unames, pretty):
    def case():
        i = C01.choose('a', len(ops)); j = C01.choose('b', len(ops)); k = C01.choose('c', len(ops)); u = C01.choose('u', len(unames) + 1)
        a, b, c = ops[i], ops[j], ops[k]
        leaves = [('var', '_a'), ('lit', '2'), ('var', '_c'), ('lit', '4')]
        if u < len(unames): leaves[1] = ('un', unames[u], ('arr', [('var', '_b'), ('bin', a, ('lit', '1'), ('var', '_d'))]))
        n = 0
        for tree in shapes3(a, b, c, leaves):
            src = full_parens(tree)
            L1 = h.compile_listing(vm, src)
            if L1 is None: rt.record_violation('assert', 'fully parenthesised source does not parse: ' + src); continue
            if not pretty:
                h.reset_obs()
                r = h.run(vm, 'trace__ (str {%s})' % src)
                if not h.traces or not isinstance(h.traces[-1], bytes): rt.record_violation('assert', 'str of code failed for ' + src); continue
                txt = h.traces[-1]
                if not (txt.startswith(b'{') and txt.endswith(b'}')): rt.record_violation('assert', 'str of code is not a code literal: %r' % txt); continue
                body = txt[1:-1]
            else:
                cap = 4096; ob = rt.new_obj(cap, 'harness'); ib = rt.make_bytes(src.encode('latin1'), 'input')
                m = h.N['w_vm_prettify'](vm, ib, len(src), ob, cap)
                body = rt.read_bytes(ob, min(m, cap))
            L2 = h.compile_listing(vm, body)
            if L2 != L1:
                rt.record_violation('assert', '%s of %s gives %r which compiles to %s instead of %s' % ('pretty-printing' if pretty else 'str', src, body.decode('latin1'), None if L2 is None else [x.decode('latin1') for x in L2], [x.decode('latin1') for x in L1]))
                strip = lambda t: ''.join(ch for ch in t if ch not in ' \t\r\n;()')
                cls = 'parentheses-dropped' if strip(body.decode('latin1')) == strip(src) else 'other:' + src.replace(' ', '_')[:60]
                rt.PS.violations[-1]['rt'] = dict(src=src, pretty=pretty, cls=cls)
            n += 1
        return dict(text='%s %s %s' % (a, b, c), n=n)
    return case

def replay(spec):
    import vmreplay
    if spec.get('kind') == 'roundtrip':
        src = spec['src']
        if spec.get('pretty'):
            import glob
            rc, out, err = vmreplay.run(['pretty', src.encode('latin1').hex()])
            ok, d = vmreplay.native.classify(rc, out, err)
            if ok: return ok, d
            hx = [l[7:] for l in out.split('\n') if l.startswith('OUTHEX ')]
            if not hx: return None, 'no pretty output'
            srcs = [f for f in glob.glob(loader.REPO + '/src/**/*.cpp', recursive=True) + glob.glob(loader.REPO + '/src/**/*.cc', recursive=True) if '/cli/' not in f and '/unused/' not in f and '/sqc/' not in f and '/export/' not in f]
            exe = C01.native.build('opsdump', sorted(srcs) + ['/verif/harness/opsdump.cpp'], sanitize=False)
            l1 = C01.native.run(exe, ['listing', src.encode('latin1').hex()])[1]; l2 = C01.native.run(exe, ['listing', hx[0]])[1]
            if l1 != l2: return True, 'native: pretty-printed %r -> %r compiles to a different instruction sequence' % (src, bytes.fromhex(hx[0]).decode('latin1'))
            return False, 'native pretty printer output compiles to the same listing'
        prog = 'private _c = {%s}; private _d = compile ((str _c) select [1, (count str _c) - 2]); trace__ [_c isEqualTo _d, str _c]' % src
        rc, out, err = vmreplay.run(['run', str(vmh.OPS_DEFAULT), '0', prog.encode('latin1').hex()])
        ok, d = vmreplay.native.classify(rc, out, err)
        if ok: return ok, d
        tr = [l for l in out.split('\n') if l.startswith('TRACE ')]
        if tr and tr[0].startswith('TRACE [false'): return True, 'native: compile str code is not equal to the code: ' + tr[0][:200]
        return False, 'native run: round trip holds: ' + (tr[0][:120] if tr else out[:120])
    return vmreplay.replay(spec)

def run(ctx):
    tier = ctx['tier']; obs = []
    import loader, C10
    h = vmh.load()
    py, info = loader.build_unit('tok', C10.TOK_SRCS, C10.TOK_ROOTS)
    h.tokN = loader.load_unit(py).NAMES
    funcs = sorted(n for n in h.m.DEFINED if ('d_string' in n or 'reconstruct' in n or 'd_code' in n or 'formatter' in n or 'd_array' in n) and len(n) < 140)
    # (1)
    for n in ([0, 1, 2, 3] if tier == 'quick' else [0, 1, 2, 3, 4]):
        oid = 'str.quote.n%d' % n
        r = oblig.run(oid, [(oid, quote_case(h, n))], ctx, funcs + ['sqf::parser::sqf::tokenizer::next'], 'all NUL-free byte strings of length exactly %d' % n, assumptions=['allocation failure is out of scope'], case_timeout=900,
                      keyfn=lambda cid, v, rr: 'str.quote:' + v.get('msg', '')[:50].replace(' ', '_'))
        if r:
            ob, recs = r
            for v in ob['violations']: v['trust_without_replay'] = True
            oblig.witness_check(ob, recs, lambda rr: rr['verdict'] == 'ok', 'a path reaching the tokenizer check'); obs.append(ob)
    # (2)
    B, U, Nl = C01.registry()
    vm = h.new_vm()
    import re
    prec = {}
    loaded = set()
    # only operators of the loaded units can be executed by `str`; for parse-only all registered would do. Use loaded binary operators, one per level and class.
    probe = ['||', '&&', '==', '!=', '>', 'select', 'pushback', 'else', 'max', 'min', '+', '-', '*', '/', '%', 'mod', 'atan2', '^', '#', 'isequalto', 'call', 'count', 'in', 'then', 'foreach', 'do']
    ops = [o for o in probe if o in B]
    unames = [u for u in ('count', '-', '!', 'str', 'call') if u in U]
    if tier == 'quick': ops = [o for o in ops if o in ('||', '==', 'select', 'max', '-', '*', '^', 'count')]; unames = unames[:2]
    for pretty in (False, True):
        oid = 'code.roundtrip.' + ('pretty' if pretty else 'str')
        def rep(cid, v, rr):
            for x in rr.get('violations', []):
                if x.get('rt') and x['msg'] == v['msg']: return dict(kind='roundtrip', src=x['rt']['src'], pretty=pretty)
            return None
        r = oblig.run(oid, [(oid, code_case(h, vm, ops, unames, pretty))], ctx, funcs, 'all five tree shapes over three binary operators chosen from %d loaded operators covering all precedence levels and arity classes (%s), one leaf optionally a unary applied to an array; %s' % (len(ops), ' '.join(ops), 'CLI pretty printer' if pretty else 'str + compile'),
                      assumptions=['allocation failure is out of scope', 'equality of code is checked as equality of instruction listings (assembly__)'], case_timeout=1500 if tier == "quick" else 5000, keyfn=lambda cid, v, rr, oid=oid: oid + ':' + next((x['rt']['cls'] for x in rr.get('violations', []) if x.get('rt') and x['msg'] == v['msg']), v.get('msg', '')[:70].replace(' ', '_')), replayfn=rep, step_limit=2_000_000_000,
                      sample_fn=lambda rr: dict(operators=rr.get('text'), trees=rr.get('n')) if rr.get('text') else None)
        if r:
            ob, recs = r
            oblig.witness_check(ob, recs, lambda rr: rr['verdict'] == 'ok' and rr.get('n'), 'a path whose listings were compared'); obs.append(ob)
    # (3) values: (call compile str v) isEqualTo v
    progs = {}
    def val_prog(mk):
        g = G(); v = mk(g)
        return Prog([('private', '_v', v), ('private', '_w', ('call', None, ('un', 'compile', ('un', 'str', ('var', '_v'))))), T(('bin', 'isequalto', ('var', '_w'), ('var', '_v'))), T(('var', '_w'))], g.f, g.b)
    progs['bools'] = val_prog(lambda g: ('arr', [g.hb(), ('arr', [g.hb(), ('arr', [])]), g.hb()]))
    progs['strs'] = val_prog(lambda g: ('arr', [('str', b'a"b'), ('str', b'""'), ('str', b"it's\n\t"), ('arr', [('str', b''), ('str', b'"')])]))
    progs['code'] = val_prog(lambda g: ('arr', [('code', [('bin', '+', N(1), ('bin', '*', N(2), N(3)))]), ('code', []), ('arr', [('code', [('str', b'x"y')])])]))
    progs['nums'] = val_prog(lambda g: ('arr', [N(0), N(1), N(-1), N(0.5), N(123456), N(1e10), N(1.5e-5), N(-2.25)]))
    ob = diffvm.run_obligation('value.roundtrip', progs, ctx, h, 'nested arrays (depth <= 3) of symbolic booleans, strings with quotes/newlines, code, and 8 concrete numbers with <= 6 significant digits', functions=funcs)
    # the reference for 'compile'/'str' is identity on the value: patch through sqfref unary table
    if ob: obs.append(ob)
    return obs
