"""C16 — virtual file system resolves deterministically and never leaves mapped roots.
The real impl_default::add_mapping / get_info (virtual + physical resolution) / read_file and the script / #include callers run on the file system
model of engine/vfs.py (directory tree + file contents; std::filesystem::path out-of-line members are Python models of the GCC 12 representation).
(1) resolve.sym: request strings of <= 5 symbols over {a, b, m, ., /, \\} (fully symbolic) from several current files: the result is not found or a
    file that exists below a mapped physical root (after normalisation), and for requests without '..' it equals the reference resolution
    (deepest virtual prefix, first root containing the file).
(2) resolve.fixed: traversal attempts, separator mixes, absolute physical paths inside / next to / outside mapped roots, through get_info,
    loadFile / preprocessFile and #include at depth 1-2: content returned is that of the reference file; escapes are reported as not found."""
import re, z3
import symrt as rt, vmh, oblig, vfs
from symrt import S
import C01

FILES = {
    b'/p/mod/a.hpp': b'trace__ "TOKEN_p_mod_a";', b'/p/mod/sub/b.hpp': b'trace__ "TOKEN_p_mod_sub_b";', b'/p/mod/m': b'trace__ "TOKEN_p_mod_m";',
    b'/p/alt/a.hpp': b'trace__ "TOKEN_p_alt_a";', b'/p/alt/only.hpp': b'trace__ "TOKEN_p_alt_only";', b'/p/alt/b': b'trace__ "TOKEN_p_alt_b";',
    b'/p/core/a': b'trace__ "TOKEN_p_core_a";', b'/p/core/mod/a.hpp': b'trace__ "TOKEN_p_core_mod_a";', b'/p/core/b/a': b'trace__ "TOKEN_p_core_b_a";',
    b'/p/mod2/a.hpp': b'trace__ "SECRET_p_mod2_a";', b'/p/secret.txt': b'trace__ "SECRET_p_secret";', b'/secret': b'trace__ "SECRET_root";', b'/p/modx': b'trace__ "SECRET_modx";',
}
MAPPINGS = [(b'/p/mod', b'/x/mod'), (b'/p/alt/', b'/x/mod'), (b'/p/core', b'/x')]      # nested prefixes; two roots for /x/mod, first wins
ROOTS = [b'/p/mod', b'/p/alt', b'/p/core']

def norm(path):
    parts = []
    for c in path.split(b'/'):
        if c in (b'', b'.'): continue
        if c == b'..':
            if parts: parts.pop()
            continue
        parts.append(c)
    return b'/' + b'/'.join(parts)
def inside_roots(phys):
    n = norm(phys)
    return any(n.startswith(r + b'/') for r in ROOTS)
def ref_resolve(req, cur_virt):
    """reference for requests without '..': returns physical path or None"""
    v = req.replace(b'\\', b'/').strip()
    if not v: return None
    if v.endswith(b'/'): return 'skip'      # trailing separator: the statement does not say whether this names the file
    if not v.startswith(b'/'): v = (cur_virt.rsplit(b'/', 1)[0] if cur_virt else b'') + b'/' + v
    comps = [c for c in v.split(b'/') if c not in (b'',)]
    if any(c == b'..' for c in comps): return 'skip'
    if comps and comps[-1] == b'.': return 'skip'
    comps = [c for c in comps if c != b'.']
    vn = b'/' + b'/'.join(comps)
    best = None
    for phys, virt in MAPPINGS:
        if vn == virt or vn.startswith(virt + b'/'):
            if best is None or len(virt) > len(best): best = virt
    if best is None: return None
    rem = vn[len(best):]
    for phys, virt in MAPPINGS:
        if virt == best and (phys.rstrip(b'/') + rem) in FILES: return phys.rstrip(b'/') + rem
    return None

def token_of(path):
    m = re.search(rb'"((?:TOKEN|SECRET)_\w+)"', FILES[path]); return m.group(1)
def setup(h):
    rt.VFS.clear(); rt.VFS.update(FILES); rt.VFS_WRITES[:] = []
    vm = h.new_vm(); h.reset_obs()
    for phys, virt in MAPPINGS: h.add_mapping(vm, phys, virt)
    return vm
CURS = [(b'', b''), (b'/p/mod/a.hpp', b'/x/mod/a.hpp'), (b'/p/core/b/a', b'/x/b/a'), (b'/p/alt/b', b'/x/mod/b')]     # the last one lives below the root that is mapped with a trailing separator

def sym_case(h, n):
    def case():
        vm = setup(h)
        ci = C01.choose('cur', len(CURS)); cp, cv = CURS[ci]
        alpha = b'abm./\\'
        buf = rt.new_obj(n + 1, 'input', 'request string'); bs = []
        for i in range(n):
            b = rt.fresh_bv('r%d' % i, 8); rt.assume(z3.Or(*[b.e == c for c in alpha])); rt.st(buf + i, 1, b); bs.append(b)
        rt.st(buf + n, 1, 0)
        op = rt.new_obj(1024, 'harness'); ov = rt.new_obj(1024, 'harness')
        r = vmh.s32(h.N['w_vm_get_info'](vm, buf, h.cs(cp), h.cs(cv), op, ov, 1024))
        req = bytes(rt.concretize(b) for b in bs)       # all branching on the request is done; remaining freedom is enumerated by the solver
        got = rt.cstr(op) if r else None
        if got is not None:
            if not inside_roots(got): rt.record_violation('assert', 'request %r (current file %r) resolves to %r, which is outside every mapped physical directory' % (req, cv, got))
            elif norm(got) not in FILES: rt.record_violation('assert', 'request %r resolves to %r, which does not exist' % (req, got))
        exp = ref_resolve(req, cv)
        if exp != 'skip' and not rt.PS.violations:
            if (got is None) != (exp is None) or (got is not None and norm(got) != exp):
                rt.record_violation('assert', 'request %r (current file %r) resolves to %r, reference resolution %r' % (req, cv, got, exp))
                if req.startswith(b'\\') and cv and got is not None and exp is None and ref_resolve(req.lstrip(b'\\/'), cv) == norm(got): rt.PS.violations[-1]['cls'] = 'leading-backslash-taken-as-relative'
        if rt.VFS_WRITES: rt.record_violation('assert', 'resolution wrote to the file system: %r' % rt.VFS_WRITES[:2])
        for v in rt.PS.violations: v['req'] = req.decode('latin1'); v['cur'] = (cp.decode(), cv.decode())
        return dict(text='%r from %r -> %r' % (req, cv, got), n=1)
    return case

FIXED = [  # (request, current index, expected physical file or None)
    (b'/x/mod/a.hpp', 0, b'/p/mod/a.hpp'), (b'\\x\\mod\\a.hpp', 0, b'/p/mod/a.hpp'), (b'x\\mod/a.hpp', 0, b'/p/mod/a.hpp'), (b'//x//mod///a.hpp', 0, b'/p/mod/a.hpp'),
    (b'/x/mod/only.hpp', 0, b'/p/alt/only.hpp'), (b'/x/mod/sub/b.hpp', 0, b'/p/mod/sub/b.hpp'), (b'/x/a', 0, b'/p/core/a'), (b'/x/b/a', 0, b'/p/core/b/a'),
    (b'/x/mod/../../secret.txt', 0, None), (b'/x/mod/../../../secret', 0, None), (b'/x/../secret', 0, None), (b'/x/mod/sub/../../../secret.txt', 0, None), (b'..\\..\\secret', 1, None),
    (b'/x/mod/..\\..\\secret.txt', 0, None), (b'/x/mod/nosuch/../../secret.txt', 0, None), (b'/x/mod/./a.hpp', 0, b'/p/mod/a.hpp'),
    (b'/p/secret.txt', 0, None), (b'/secret', 0, None), (b'/p/mod2/a.hpp', 0, None), (b'/p/modx', 0, None), (b'/p/mod/../mod2/a.hpp', 0, None), (b'/p/mod/../secret.txt', 0, None),
    (b'/p/mod/a.hpp', 0, b'/p/mod/a.hpp'), (b'/p/alt/only.hpp', 0, b'/p/alt/only.hpp'), (b'/p/core/b/a', 0, b'/p/core/b/a'),
    (b'sub/b.hpp', 1, b'/p/mod/sub/b.hpp'), (b'a.hpp', 1, b'/p/mod/a.hpp'), (b'../mod2/a.hpp', 1, None), (b'../secret.txt', 1, None), (b'../../secret', 1, None), (b'..\\mod2\\a.hpp', 1, None),
    (b'a', 2, b'/p/core/b/a'), (b'../a', 2, b'/p/core/a'), (b'../../secret.txt', 2, None),
    (b'only.hpp', 3, b'/p/alt/only.hpp'), (b'a.hpp', 3, b'/p/mod/a.hpp'), (b'./only.hpp', 3, b'/p/alt/only.hpp'), (b'../secret.txt', 3, None),
    # absolute physical paths that enter a mapped root and climb out of it again, where the collapsed *virtual* path names an existing file of another root
    (b'/p/mod/../a', 0, None), (b'/p/mod/sub/../../a', 0, None), (b'/p/mod/sub/../../b/a', 0, None), (b'/p/alt/../a', 0, None), (b'/p/mod/..\\a', 0, None), (b'/p/mod//sub/..//../a', 0, None),
    (b'/p/alt/../mod/a.hpp', 0, b'/p/mod/a.hpp'), (b'/p/mod/sub/../../../p/core/nosuch/../../secret.txt', 0, None),
    # requests that name a directory (or nothing): not a file, so not found - never a read of the directory
    (b'/x/mod', 0, 'DIR'), (b'/x/mod/', 0, 'DIR'), (b'/x/mod/sub', 0, 'DIR'), (b'', 0, 'DIR'), (b'.', 1, 'DIR'), (b'sub', 1, 'DIR'), (b'/p/mod', 0, 'DIR'), (b'/x', 0, 'DIR'), (b'..', 2, 'DIR'),
]
def fixed_case(h, idx, via):
    req, ci, exp = FIXED[idx]
    isdir = exp == 'DIR'
    if isdir: exp = None
    def case():
        vm = setup(h); cp, cv = CURS[ci]
        what = 'request %r from %r via %s' % (req, cv, via)
        if via == 'get_info':
            g = h.get_info(vm, req, cp, cv)
            got = g[0] if g else None
            if isdir:
                # the statement speaks about files; path resolution alone may name the mapped directory itself, but nothing outside the roots
                if got is not None and not (inside_roots(got) or norm(got) in ROOTS): rt.record_violation('assert', '%s resolves to %r, which is outside every mapped physical directory' % (what, got))
            elif (got is None) != (exp is None) or (got is not None and norm(got) != exp): rt.record_violation('assert', '%s resolves to %r, expected %r' % (what, got, exp))
        else:
            if via in ('loadFile', 'execVM') and ci != 0: return dict(text='skip', n=0)
            q = req.replace(b'"', b'""')
            if via == 'loadFile': code = b'trace__ (loadFile "' + q + b'");'
            elif via == 'execVM': code = b'private _h = [] execVM "' + q + b'"; trace__ "started";'
            elif via == 'include': code = b'#include "' + req + b'"\n'
            exp2 = exp
            if via == 'include':
                if exp == cp: return dict(text='skip self include', n=0)
                if ci == 0 and not req.startswith((b'/p', b'/secret')):
                    e = ref_resolve(req, b'/x/root.sqf')
                    if e == 'skip' : e = exp
                    exp2 = e
            r = h.run_at(vm, code, cp or b'/p/core/root.sqf', cv or b'/x/root.sqf') if via == 'include' else h.run(vm, code)
            if via == 'loadFile':
                got = h.traces[-1] if h.traces else None
                want = FILES[exp] if exp else None
                if want is None:
                    if isinstance(got, bytes) and (b'SECRET' in got or b'TOKEN' in got): rt.record_violation('assert', '%s returned the content of a file (%r) although the request must be reported as not found' % (what, got))
                elif got != want: rt.record_violation('assert', '%s returned %r, expected the content %r of %r' % (what, got, want, exp))
            elif via == 'execVM':
                ran = [t for t in h.traces if isinstance(t, bytes) and t != b'started']
                if exp is None:
                    if ran: rt.record_violation('assert', '%s ran a file (%r) although the request must be reported as not found' % (what, ran))
                elif ran != [token_of(exp)]: rt.record_violation('assert', '%s ran %r, expected exactly the code of %r (%r)' % (what, ran, exp, token_of(exp)))
            else:
                text = b' '.join(str(l[2]).encode('latin1') for l in h.logs)
                ok = r != -2
                ran = [t for t in h.traces if isinstance(t, bytes)]
                if exp2 is not None and ok and ran != [token_of(exp2)]: rt.record_violation('assert', '%s included %r, expected the content of %r (%r)' % (what, ran, exp2, token_of(exp2)))
                if exp2 is None and ok: rt.record_violation('assert', '%s: the include succeeded although the file must not be found' % what)
                if exp2 is not None and not ok: rt.record_violation('assert', '%s: the include failed (%r)' % (what, [l[2][:80] for l in h.errors()[:1]]))
        if rt.VFS_WRITES: rt.record_violation('assert', 'resolution wrote to the file system: %r' % rt.VFS_WRITES[:2])
        return dict(text=what, n=1)
    return case

def replay(spec):
    return None, 'no native replay (file system model)'

def run(ctx):
    tier = ctx['tier']; h = vmh.load(); obs = []
    funcs = sorted(x for x in h.m.DEFINED if ('6fileio12impl_default' in x or 'fileio' in x and 'get_info' in x) and len(x) < 140)
    ns = [1, 2, 3, 4] if tier == 'quick' else [1, 2, 3, 4, 5]
    def key(cid, v, rr):
        for x in rr.get('violations', []):
            if x['msg'] == v['msg'] and x.get('cls'): return 'vfs:' + x['cls']
        return 'vfs:' + v.get('msg', '')[:110].replace(' ', '_')
    for n in ns:
        oid = 'resolve.sym.n%d' % n
        r = oblig.run(oid, [(oid, sym_case(h, n))], ctx, funcs, 'all request strings of length %d over {a, b, m, ., /, \\} from 3 current files (none, /x/mod/a.hpp, /x/b/a); mappings %r' % (n, [(a.decode(), b.decode()) for a, b in MAPPINGS]),
                      assumptions=['file system = engine/vfs.py model (files %d, std::filesystem::path members are Python models of the GCC 12 representation)' % len(FILES), 'allocation failure is out of scope'], case_timeout=3000, keyfn=key, step_limit=2_000_000_000,
                      sample_fn=lambda rr: dict(resolution=rr.get('text')) if rr.get('text') else None)
        if r:
            ob, recs = r
            for v in ob['violations']: v['trust_without_replay'] = True
            oblig.witness_check(ob, recs, lambda rr: rr['verdict'] == 'ok' and '-> b' in (rr.get('text') or ''), 'a request that resolves to a file'); obs.append(ob)
    cases = [('f%d.%s' % (i, via), fixed_case(h, i, via)) for i in range(len(FIXED)) for via in ('get_info', 'loadFile', 'execVM', 'include')]
    r = oblig.run('resolve.fixed', cases, ctx, funcs, '%d requests (plain, separator mixes, traversal attempts through virtual and physical paths, sibling directory whose name extends a mapped root, relative requests from files at depth 1-2) x {get_info, loadFile, execVM, #include}: the file read / run / included is the reference file' % len(FIXED),
                  assumptions=['file system = engine/vfs.py model'], case_timeout=1200, keyfn=key, step_limit=2_000_000_000, sample_fn=lambda rr: dict(request=rr.get('text')) if rr.get('text') else None)
    if r:
        ob, recs = r
        for v in ob['violations']: v['trust_without_replay'] = True
        oblig.witness_check(ob, recs, lambda rr: rr['verdict'] == 'ok' and rr.get('n'), 'a fixed request checked'); obs.append(ob)
    return obs
