"""C07 — equality is an equivalence consistent with hashing; HashMap is a finite map.
(1) eq.kernel: value::operator== / data::equals / std::hash<value> on values built through the real constructors with symbolic leaves (any float bit
    pattern, booleans, string bytes): symmetry, reflexivity (no NaN), transitivity on triples, equal => equal hash. std::_Hash_bytes on symbolic
    bytes is an uninterpreted function (equal inputs => equal outputs), so the +-0 handling of std::hash<float> is what the proof rests on.
(2) eq.ops: isEqualTo / == / != / in / find through the real VM against the reference (== ignores string case, isEqualTo does not).
(3) hashmap.hist: operation histories on a HashMap (set/get/deleteAt/in/count/keys/createHashMapFromArray/+) over keys of every kind against a
    reference association list keyed by isEqualTo with keys captured by value."""
import itertools, z3
import symrt as rt, vmh, oblig, diffvm, sqfref
from symrt import S, SF
from diffvm import Prog
from C02 import G, N, T
import C01

V = lambda n: ('var', n)
def B(op, l, r): return ('bin', op, l, r)

# ---- (1) kernels
SHAPES = ['f', 'b', 's1', 's2', ['f'], ['f', 'b'], [['f'], 's1'], ['s2', ['b']]]
def build(h, shape, tag, leaves):
    N_ = h.N
    if shape == 'f':
        x = rt.fresh_f32('f_' + tag); leaves.append(x); return N_['w_val_new_scalar'](x)
    if shape == 'b':
        x = rt.fresh_bool('b_' + tag); return N_['w_val_new_bool'](x.zext(32))
    if isinstance(shape, str) and shape[0] == 's':
        n = int(shape[1]); buf = rt.new_obj(max(n, 1), 'input')
        for i in range(n):
            c = rt.fresh_bv('s_%s_%d' % (tag, i), 8); rt.assume(c != 0); rt.st(buf + i, 1, c)
        return N_['w_val_new_string'](buf, n)
    arr = rt.new_obj(8 * max(len(shape), 1), 'harness')
    for i, sh in enumerate(shape): rt.st(arr + 8 * i, 8, build(h, sh, tag + str(i), leaves))
    return N_['w_val_new_array'](len(shape), arr)
def cond(x):
    if x.__class__ is S: return x.e != 0 if x.w != 1 else x.e
    return z3.BoolVal(bool(x))
def kernel_case(h, sa, sb, sc):
    def case():
        la, lb, lc = [], [], []
        a = build(h, sa, 'a', la); b = build(h, sb, 'b', lb); c = build(h, sc, 'c', lc)
        eq = h.N['w_val_equals']; hs = h.N['w_val_hash']
        ab = cond(eq(a, b)); ba = cond(eq(b, a)); bc = cond(eq(b, c)); ac = cond(eq(a, c)); aa = cond(eq(a, a))
        rt.check(ab == ba, 'isEqualTo is not symmetric on values of shapes %r / %r' % (sa, sb))
        nonan = z3.And(*[z3.Not(z3.fpIsNaN(x.e)) for x in la]) if la else z3.BoolVal(True)
        rt.check(z3.Implies(nonan, aa), 'isEqualTo is not reflexive on a NaN-free value of shape %r' % (sa,))
        rt.check(z3.Implies(z3.And(ab, bc), ac), 'isEqualTo is not transitive on shapes %r / %r / %r' % (sa, sb, sc))
        ha = hs(a); hb = hs(b)
        he = (ha == hb)
        rt.check(z3.Implies(ab, cond(he) if he.__class__ is S else z3.BoolVal(bool(he))), 'values of shapes %r / %r compare equal but hash differently' % (sa, sb))
        return dict(text='shapes %r %r %r' % (sa, sb, sc), n=1)
    return case

# ---- (3) hashmap histories
def keypool(g):
    return [('k_sym', g.hf([0, 2])), ('k_negzero', B('*', N(0), N(-1))), ('k_zero', N(0)), ('k_str', ('str', b'a')), ('k_STR', ('str', b'A')), ('k_arr', V('_ak')), ('k_arrlit', ('arr', [N(1), ('str', b'x')])), ('k_true', ('bool', True)), ('k_nested', ('arr', [('arr', [N(1)]), N(2)])), ('k_nestedobj', V('_nk'))]
def observe():
    probes = [N(0), N(1), N(2), ('str', b'a'), ('str', b'A'), ('arr', [N(1), ('str', b'x')]), ('arr', [N(1), ('str', b'x'), N(9)]), ('bool', True), ('arr', [('arr', [N(1)]), N(2)])]
    out = [T(('un', 'count', V('_h'))), T(('un', 'keys', V('_h')))]
    for p in probes: out += [T(('arr', [B('get', V('_h'), p), B('in', p, V('_h'))]))]
    return out
def hist_case(h, length, fixed=None, quickkeys=None):
    def case():
        g = G()
        pool = keypool(g)
        stmts = [('private', '_ak', ('arr', [N(1), ('str', b'x')])), ('private', '_nk', ('arr', [('arr', [N(1)]), N(2)])), ('private', '_h', ('nul', 'createHashMap'))]
        names = []
        nops = 7
        for step in range(length):
            if fixed: op, ki = fixed[step]
            else:
                op = C01.choose('op%d' % step, nops); ki = C01.choose('k%d' % step, len(pool) if quickkeys is None else len(quickkeys))
                if quickkeys is not None: ki = quickkeys[ki]
            kn, k = pool[ki]
            if op == 0: stmts.append(T(('arr', [B('set', V('_h'), ('arr', [k, N(100 + step)]))]))); names.append('set ' + kn)
            elif op == 1: stmts.append(T(('arr', [B('get', V('_h'), k)]))); names.append('get ' + kn)
            elif op == 2: stmts.append(T(('arr', [B('deleteat', V('_h'), k)]))); names.append('deleteAt ' + kn)
            elif op == 3: stmts.append(T(B('in', k, V('_h')))); names.append('in ' + kn)
            elif op == 4: stmts.append(('assign', '_unused', B('pushback', V('_ak'), N(9)))); names.append('mutate array key object')
            elif op == 6: stmts.append(('assign', '_unused', B('pushback', B('select', V('_nk'), N(0)), N(9)))); names.append('mutate the array nested inside the array key object')
            elif op == 5: stmts += [('private', '_c', ('un', '+', V('_h'))), T(('arr', [B('set', V('_c'), ('arr', [k, N(500 + step)]))])), T(('un', 'count', V('_c')))]; names.append('copy, set %s in copy' % kn)
        stmts += observe()
        p = Prog(stmts, g.f, g.b)
        res = diffvm.diff_case(h, p, expect_no_errors=False)()
        for v in rt.PS.violations:
            v['hist'] = names; v['prog'] = p.text()
            v.setdefault('cls', 'keymut' if 'mutate array key object' in names and any('k_arr' in x for x in names) else ' ; '.join(names))
        res['text'] = ' ; '.join(names)
        return res
    return case

def replay(spec):
    import vmreplay
    return vmreplay.replay(spec)

def run(ctx):
    tier = ctx['tier']; obs = []
    h = vmh.load()
    funcs = sorted(n for n in h.m.DEFINED if ('d_scalar' in n or 'd_string' in n or 'd_array' in n or 'd_boolean' in n or 'hashmap' in n or '5value' in n) and len(n) < 140)
    # (1)
    triples = [(s_, s_, s_) for s_ in SHAPES] + [('f', 'b', 'f'), ('s1', 's2', 's1'), (['f'], ['f', 'b'], ['f']), ('f', ['f'], 'f'), (['f', 'b'], ['f', 'b'], [['f'], 's1'])]
    cases = [('k%d' % i, kernel_case(h, a, b, c)) for i, (a, b, c) in enumerate(triples)]
    r = oblig.run('eq.kernel', cases, ctx, funcs, 'triples of values of %d shapes (scalars: any single-precision bit pattern incl. NaN, inf, +-0; booleans; strings of 1-2 symbolic non-NUL bytes; arrays nested to depth 2 with <= 2 elements), same-shape and mixed-shape triples' % len(SHAPES),
                  assumptions=['std::_Hash_bytes on symbolic bytes is an uninterpreted function per length (functional consistency only)', 'allocation failure is out of scope'], case_timeout=900,
                  keyfn=lambda cid, v, rr: 'eq.kernel:' + v.get('msg', '')[:60].replace(' ', '_'), step_limit=100_000_000)
    if r:
        ob, recs = r
        for v in ob['violations']: v['trust_without_replay'] = True
        oblig.witness_check(ob, recs, lambda rr: rr['verdict'] == 'ok' and rr.get('n'), 'a path on which all four equalities were discharged'); obs.append(ob)
    # (2)
    progs = {}
    g = G(); progs['scalar'] = Prog([('private', '_a', g.hf(['range', -2, 2])), ('private', '_b', g.hf(['range', -2, 2])), T(B('isequalto', V('_a'), V('_b'))), T(B('==', V('_a'), V('_b'))), T(B('!=', V('_a'), V('_b'))), T(B('isequalto', V('_b'), V('_a'))),
                                     T(B('isequalto', ('arr', [V('_a'), N(1)]), ('arr', [V('_b'), N(1)]))), T(B('isequalto', B('*', N(0), N(-1)), N(0)))], g.f, g.b)
    g = G(); progs['string'] = Prog([T(B('==', ('str', b'AbC'), ('str', b'aBc'))), T(B('isequalto', ('str', b'AbC'), ('str', b'aBc'))), T(B('isequalto', ('str', b'AbC'), ('str', b'AbC'))), T(B('==', ('str', b'ab'), ('str', b'abc'))),
                                     T(B('isequalto', ('arr', [('str', b'a')]), ('arr', [('str', b'A')]))), T(B('isequalto', ('arr', [('str', b'a'), ('arr', [g.hb()])]), ('arr', [('str', b'a'), ('arr', [g.hb()])])))], g.f, g.b)
    g = G(); progs['code'] = Prog([T(B('isequalto', ('code', [B('+', N(1), N(2))]), ('code', [B('+', N(1), N(2))]))), T(B('isequalto', ('code', [B('+', N(1), N(2))]), ('code', [B('+', N(2), N(1))]))), T(B('isequalto', N(1), ('bool', True))), T(B('isequalto', ('arr', []), ('arr', [])))], g.f, g.b)
    ob = diffvm.run_obligation('eq.ops', progs, ctx, h, 'isEqualTo / == / != on scalars in [-2,2] (symbolic), +-0, strings in mixed case, nested arrays, code, values of different types', functions=funcs)
    if ob: obs.append(ob)
    # (3)
    L = 2 if tier == 'quick' else 3
    fixed = {'keymut': [(0, 5), (4, 0), (1, 6)], 'keymut.nested': [(0, 9), (6, 0), (1, 8)], 'keymut.nested.del': [(0, 9), (6, 0), (2, 8)], 'negzero': [(0, 2), (0, 1), (2, 1)], 'copy': [(0, 3), (5, 4), (2, 3)], 'sym': [(0, 0), (0, 2), (2, 0)], 'nested': [(0, 8), (0, 6), (2, 8)]}
    cases = [('hist.len%d' % L, hist_case(h, L, None, [0, 1, 2, 3, 5, 6, 9] if tier == 'quick' else None))] + [('hist.' + k, hist_case(h, len(v), v)) for k, v in fixed.items()]
    def key(cid, v, rr):
        for x in rr.get('violations', []):
            if x['msg'] == v['msg'] and x.get('cls'): return 'hashmap.hist:' + x['cls'].replace(' ', '_')[:100]
        return 'hashmap.hist:' + cid
    def rep(cid, v, rr):
        for x in rr.get('violations', []):
            if x['msg'] == v['msg'] and x.get('prog'):
                inp = v.get('inputs') or rr.get('inputs') or {}
                holes = ['f%d=%08x' % (int(k[2:]), val['f32bits']) for k, val in inp.items() if k.startswith('hf') and isinstance(val, dict)]
                return dict(kind='vm', op='run', ops=vmh.OPS_DEFAULT, pp=0, hex=x['prog'].encode('latin1').hex(), holes=holes, expect_traces=None, hist=x.get('hist'))
        return None
    r = oblig.run('hashmap.hist', cases, ctx, funcs, 'all histories of %d operations from {set, get, deleteAt, in, mutate the array used as key, mutate an array nested inside the key, copy-and-set} over 10 keys (symbolic scalar in {0,1,2}, -0, 0, "a", "A", an array object, an equal array literal, true, a nested array literal, a nested array object), followed by count, keys and get/in probes of 9 values; 5 fixed 3-step histories' % L,
                  assumptions=['reference: association list keyed by isEqualTo, keys deep-copied at insertion (lib/sqfref.py)', 'allocation failure is out of scope'], case_timeout=1800, keyfn=key, replayfn=rep, step_limit=2_000_000_000,
                  sample_fn=lambda rr: dict(history=rr.get('text')) if rr.get('text') else None)
    if r:
        ob, recs = r
        for v in ob['violations']: v['trust_without_replay'] = True
        oblig.witness_check(ob, recs, lambda rr: rr['verdict'] == 'ok' and rr.get('ntrace'), 'a history compared with the reference'); obs.append(ob)
    return obs
