"""C20 — runs are deterministic and VM instances are isolated from each other (sequential "after" form; concurrent "beside" is not applicable).
For programs P and Q: the outputs of P in a fresh VM (log lines in order, traced values) must be the same whether or not another VM instance in the
same process image executed Q before. Each (P, Q) pair and each 'P alone' run is one symbolic case started from the same process image (fork);
the comparison is made on the recorded outputs. Q ranges over everything the property names: number formatting mode, preprocessor counters and
defines, operator/type registrations (a VM with a different operator set), variables, config."""
import json
import symrt as rt, vmh, oblig
import C01

P = {
    'numfmt': (b'trace__ (str 1.5); trace__ (str [0.25, 100, -3]); diag_log 2.5;', 0),
    'counter': (b'trace__ [__COUNTER__, __COUNTER__];', 1),
    'globals': (b'trace__ [isNil "giso", isNil "GISO2"]; giso = 1;', 0),
    'config': (b'trace__ [isClass (configFile >> "CfgIso"), getNumber (configFile >> "CfgIso" >> "v")];', 0),
    'define': (b'#ifdef ISO_DEF\ntrace__ [1];\n#else\ntrace__ [0];\n#endif\n', 1),
    'cmds': (b'private _c = cmds__; trace__ [count _c, ["n", "hf0__"] in _c, ["b", "createhashmap"] in _c];', 0),
    'types': (b'trace__ [typeName 1, typeName "", typeName [], typeName {}, typeName true, typeName createHashMap, typeName missionNamespace];', 0),
    'tofixed.reset': (b'trace__ (1.23456 toFixed 2); trace__ (str 1.23456);', 0),
}
Q = {
    'none': None,
    'toFixed': (b'toFixed 3; diag_log str 1.5;', 0, vmh.OPS_DEFAULT),
    'counter': (b'diag_log [__COUNTER__, __COUNTER__, __COUNTER__];', 1, vmh.OPS_DEFAULT),
    'globals': (b'giso = 5; GISO2 = 6; missionNamespace setVariable ["giso", 7];', 0, vmh.OPS_DEFAULT),
    'config': (b'CONFIG', 0, vmh.OPS_DEFAULT),
    'define': (b'#define ISO_DEF 1\ndiag_log ISO_DEF;', 1, vmh.OPS_DEFAULT),
    'cmds.otherops': (b'diag_log count cmds__;', 0, 1 | 2 | 64),
    'types.otherorder': (b'diag_log [typeName createHashMap, typeName {}];', 0, 16 | 64 | 1),
    'error.run': (b'[] select 5;', 0, vmh.OPS_DEFAULT),
}
CONFIG = b'class CfgIso { v = 7; };'

def iso_case(h, pn, qn):
    def case():
        if qn != 'none':
            text, pp, ops = Q[qn]
            vq = h.new_vm(ops)
            if text == b'CONFIG': h.parse_config(vq, CONFIG)
            else: h.run(vq, text, pp)
            if C01.choose('destroy', 2) == 1: h.N['w_vm_delete'](vq)
        h.reset_obs()
        vm = h.new_vm()
        text, pp = P[pn]
        r = h.run(vm, text, pp)
        out = dict(result=r, traces=json.loads(json.dumps(h.traces, default=str)), logs=[(l[0], l[2]) for l in h.logs])
        return dict(text='P=%s after Q=%s' % (pn, qn), p=pn, q=qn, out=out, n=1)
    return case

def replay(spec):
    return None, 'no native replay'

def run(ctx):
    h = vmh.load()
    funcs = sorted(n for n in h.m.DEFINED if ('d_scalar' in n or 'counter' in n or 'tofixed' in n or 'cmds__' in n or '4type' in n) and len(n) < 120)
    cases = [('%s|%s' % (pn, qn), iso_case(h, pn, qn)) for pn in P for qn in Q]
    r = oblig.run('iso.after', cases, ctx, funcs, '%d programs P x %d predecessors Q (incl. none), Q executed in another VM instance of the same process image which is then destroyed or kept alive (symbolic choice)' % (len(P), len(Q)),
                  assumptions=['instances run one after another in one thread (concurrent instances are not applicable)', 'allocation failure is out of scope'], case_timeout=900, step_limit=600_000_000,
                  sample_fn=lambda rr: dict(case=rr.get('text'), outputs=str(rr.get('out'))[:200]) if rr.get('text') else None)
    if not r: return []
    ob, recs = r
    base = {}
    for rr in recs:
        if rr.get('q') == 'none' and rr.get('verdict') == 'ok': base[rr['p']] = rr['out']
    viols = []
    for rr in recs:
        if rr.get('verdict') != 'ok' or rr.get('q') in (None, 'none'): continue
        b = base.get(rr['p'])
        if b is None: continue
        if rr['out'] != b:
            viols.append(dict(kind='assert', key='iso.after:P=%s:Q=%s' % (rr['p'], rr['q']), case=rr['case'], inputs=rr.get('inputs'), trust_without_replay=True,
                              msg='output of P=%s in a fresh VM differs after another instance ran Q=%s: %s vs alone %s' % (rr['p'], rr['q'], str(rr['out'])[:160], str(b)[:160])))
    seen = set(); uniq = []
    for v in viols:
        if v['key'] in seen: continue
        seen.add(v['key']); uniq.append(v)
    ob['violations'] += uniq
    if uniq: ob['status'] = 'violated'
    oblig.witness_check(ob, recs, lambda rr: rr['verdict'] == 'ok' and rr.get('q') not in (None, 'none'), 'a (P after Q) run compared with P alone')
    return [ob]
