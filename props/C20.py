"""C20 — runs are deterministic and VM instances are isolated from each other (sequential "after" form; concurrent "beside" is not applicable).
For programs P and Q: the outputs of P in a fresh VM (log lines in order, traced values) must be the same whether or not another VM instance in the
same process image executed Q before. Each (P, Q) pair and each 'P alone' run is one symbolic case started from the same process image (fork);
the comparison is made on the recorded outputs. Q ranges over everything the property names: number formatting mode, preprocessor counters and
defines, operator/type registrations (a VM with a different operator set), variables, config."""
import json
import symrt as rt, vmh, oblig
import C01

P = {
    'numfmt': (b'trace__ (str 1.5); trace__ (str [0.25, 100, -3]); diag_log 2.5;', 0),
    'counter': (b'trace__ [__COUNTER__, __COUNTER__];', 1),
    'globals': (b'trace__ [isNil "giso", isNil "GISO2"]; giso = 1;', 0),
    'config': (b'trace__ [isClass (configFile >> "CfgIso"), getNumber (configFile >> "CfgIso" >> "v")];', 0),
    'define': (b'#ifdef ISO_DEF\ntrace__ [1];\n#else\ntrace__ [0];\n#endif\n', 1),
    'cmds': (b'private _c = cmds__; trace__ [count _c, ["n", "hf0__"] in _c, ["b", "createhashmap"] in _c];', 0),
    'types': (b'trace__ [typeName 1, typeName "", typeName [], typeName {}, typeName true, typeName createHashMap, typeName missionNamespace];', 0),
    'tofixed.reset': (b'trace__ (1.23456 toFixed 2); trace__ (str 1.23456);', 0),
}
Q = {
    'none': None,
    'toFixed': (b'toFixed 3; diag_log str 1.5;', 0, vmh.OPS_DEFAULT),
    'counter': (b'diag_log [__COUNTER__, __COUNTER__, __COUNTER__];', 1, vmh.OPS_DEFAULT),
    'globals': (b'giso = 5; GISO2 = 6; missionNamespace setVariable ["giso", 7];', 0, vmh.OPS_DEFAULT),
    'config': (b'CONFIG', 0, vmh.OPS_DEFAULT),
    'define': (b'#define ISO_DEF 1\ndiag_log ISO_DEF;', 1, vmh.OPS_DEFAULT),
    'cmds.otherops': (b'diag_log count cmds__;', 0, 1 | 2 | 64),
    'types.otherorder': (b'diag_log [typeName createHashMap, typeName {}];', 0, 16 | 64 | 1),
    'error.run': (b'[] select 5;', 0, vmh.OPS_DEFAULT),
}
CONFIG = b'class CfgIso { v = 7; };'

# feature programs: each one both changes and observes one kind of per-VM state; every feature is used as P and as Q (F x F pairs)
F = {
    'f.format': (b'trace__ [format ["%1 %2 %3", 1.5, "a", [1e7, -0.5]], str "q""x", toArray "ab", toString [65, 66], [1, 2, 3] joinString ",", str 1e-7, str 123456789, parseNumber "1.5"];', 0),
    'f.ns': (b'trace__ [isNil {uiNamespace getVariable "isou"}, isNil {parsingNamespace getVariable "isou"}, isNil {profileNamespace getVariable "isou"}, isNil "isom", count allVariables missionNamespace, count allVariables uiNamespace];'
             b' uiNamespace setVariable ["isou", 1]; parsingNamespace setVariable ["isou", 2]; profileNamespace setVariable ["isou", 3]; isom = 4; with uiNamespace do { isow = 5; };', 0),
    'f.macro': (b'#ifdef ISO_M\ntrace__ ["defined", ISO_M(1)];\n#endif\n#define ISO_M(x) (x + 1)\ntrace__ [ISO_M(2), __LINE__];\n#define ISO_N 5\ntrace__ [ISO_N];\n', 1),
    'f.macro2': (b'#ifdef ISO_N\ntrace__ ["defined"];\n#endif\n#define ISO_M(x) (x * 7)\n#define ISO_N ISO_M(3)\ntrace__ [ISO_N, __LINE__];\n', 1),
    'f.spawn': (b'private _h = [] spawn { isos = 1; }; private _g = [] spawn { sleep 100; }; trace__ [str _h, str _g, scriptDone _h, isNil "isos"]; terminate _g;', 0),
    'f.hashmap': (b'private _m = createHashMapFromArray [["a", 1], [2, "b"], [[1, "x"], true], [false, []]]; _m set ["k", 3]; trace__ [keys _m, values _m, str _m, _m get "a", _m getOrDefault ["zz", -1], count _m];', 0),
    'f.err.rt': (b'trace__ 1; private _r = [] select 5; trace__ 2;', 0),
    'f.err.compile': (b'trace__ 1; private _c = compile "1 + + ]"; trace__ [isNil "_c"]; private _d = compile "isoq = 1 +"; trace__ 3;', 0),
    'f.err.undef': (b'trace__ 1; private _u = isoundef + 1; trace__ 2;', 0),
    'f.err.type': (b'trace__ 1; "a" + 1; trace__ 2;', 0),
    'f.err.catch': (b'try { trace__ 1; throw "isoex"; } catch { trace__ [_exception]; }; { trace__ 2; [] select 7; trace__ 22; } except__ { trace__ ["h", _exception]; }; trace__ 3;', 0),
    'f.parse': (b'trace__ [str {1 + 2 * 3; a = [1, 2] select 0}, str compile "private _q = {_x} forEach [1]", str (parseSimpleArray "[1,""a"",[2]]"), str {if (a) then {b} else {c}}];', 0),
    'f.text': (b'trace__ [str parseText "a<br/>b", str text "x", str composeText ["a", lineBreak, "b"], str lineBreak];', 0),
    'f.asm': (b'trace__ [assembly__ {1 + 1; private _a = [2]}, assembly__ "a = 1"];', 0),
    'f.cfgown': (b'trace__ [count configFile, configName (configFile >> "IsoA"), str inheritsFrom (configFile >> "IsoB"), getNumber (configFile >> "IsoB" >> "x"), getArray (configFile >> "IsoB" >> "arr"), str configHierarchy (configFile >> "IsoB" >> "Inner"), '
                 b'isClass (configFile >> "CfgIso"), "true" configClasses configFile apply {configName _x}];', 0, b'class IsoA { x = 1; arr[] = {1, "b", {2}}; }; class IsoB : IsoA { class Inner { y = "s"; }; };'),
    'f.cfgown2': (b'trace__ [count configFile, "true" configClasses configFile apply {configName _x}, getNumber (configFile >> "IsoA" >> "x"), getText (configFile >> "IsoB" >> "t"), isClass (configFile >> "IsoB" >> "Inner")];', 0,
                  b'class IsoB { t = "other"; }; class IsoA : IsoB { x = 9; }; class CfgIso { w = 1; };'),
    'f.vars': (b'private _c = {isoc = (if (isNil "isoc") then {0} else {isoc}) + 1; isoc}; trace__ [call _c, call _c, missionNamespace getVariable ["isoc", -1], allVariables missionNamespace];', 0),
    'f.types': (b'trace__ [typeName 1, typeName "", typeName [], typeName {}, typeName true, typeName createHashMap, typeName missionNamespace, typeName configFile, typeName text "", typeName ([] spawn {}), typeName (if true), typeName (for "_i"), typeName (switch 1), typeName (while {true}), typeName nil, 1 isEqualType 2, [] isEqualType createHashMap, "" isEqualTypeAny [1, ""]];', 0),
    'f.sqfvm': (b'trace__ [count cmds__, count (cmdsimplemented__)]; help__ "select";', 0),
    'f.pp.err': (b'#define ISO_E(a,b) a b\ntrace__ [1];\nISO_E(1)\n#include "isonotthere.hpp"\ntrace__ [2];\n', 1),
}

def entry(tab, n):
    e = tab[n] if n in tab else F[n]
    text, pp = e[0], e[1]
    ops = e[2] if tab is Q and n in Q else vmh.OPS_DEFAULT
    cfg = e[2] if n in F and len(e) > 2 else None
    return text, pp, ops, cfg

def iso_case(h, pn, qn):
    def case():
        if qn != 'none':
            text, pp, ops, cfg = entry(Q, qn)
            vq = h.new_vm(ops)
            if cfg: h.parse_config(vq, cfg)
            if text == b'CONFIG': h.parse_config(vq, CONFIG)
            else: h.run(vq, text, pp)
            if C01.choose('destroy', 2) == 1: h.N['w_vm_delete'](vq)
        h.reset_obs()
        vm = h.new_vm()
        text, pp, _, cfg = entry(P, pn)
        if cfg: h.parse_config(vm, cfg)
        r = h.run(vm, text, pp)
        out = dict(result=r, traces=json.loads(json.dumps(h.traces, default=str)), logs=[(l[0], l[2]) for l in h.logs])
        return dict(text='P=%s after Q=%s' % (pn, qn), p=pn, q=qn, out=out, n=1)
    return case

def replay(spec):
    """native: P alone in one process, Q then P (two instances) in another; reproduced iff P's printed output differs"""
    import native
    if spec.get('op') != 'iso': return None, 'no native replay'
    import vmreplay; exe = vmreplay.exe() if hasattr(vmreplay, 'exe') else native.build('replay_vm', vmh.VM_SOURCES + ['operators/object.cpp', 'operators/group.cpp', '/verif/harness/replay_vm.cpp'])
    hx = lambda b: b.hex() if b else '-'
    pt, ppp, _, pcfg = entry(P, spec['p'])
    qt, qpp, qops, qcfg = entry(Q, spec['q'])
    if qt == b'CONFIG': qt, qcfg = None, CONFIG
    outs = []
    for q in (False, True):
        a = ['iso', str(qops), str(qpp), hx(qt) if q else '-', hx(qcfg) if q else '-', str(spec.get('destroy', 0)), str(ppp), hx(pt), hx(pcfg)]
        rc, out, err = native.run(exe, a, timeout=60)
        bad, what = native.classify(rc, out, err)
        if bad: return True, 'native run crashed: ' + what
        outs.append(out.split('P-BEGIN\n', 1)[-1])
    if outs[0] != outs[1]:
        import difflib
        d = [l for l in difflib.unified_diff(outs[0].split('\n'), outs[1].split('\n'), lineterm='', n=0) if not l.startswith(('---', '+++', '@@'))]
        return True, 'native: output of P alone and after Q differ: ' + ' | '.join(d)[:300]
    return False, 'native outputs identical'

def run(ctx):
    h = vmh.load()
    funcs = sorted(n for n in h.m.DEFINED if ('d_scalar' in n or 'counter' in n or 'tofixed' in n or 'cmds__' in n or '4type' in n) and len(n) < 120)
    cases = [('%s|%s' % (pn, qn), iso_case(h, pn, qn)) for pn in P for qn in Q]
    fq = list(F) if ctx.get('tier') == 'thorough' or True else []
    cases += [('%s|%s' % (pn, qn), iso_case(h, pn, qn)) for pn in F for qn in ['none'] + list(Q)[1:] + fq]      # feature programs after every Q and after every feature program
    cases += [('%s|%s' % (pn, qn), iso_case(h, pn, qn)) for pn in P for qn in F]
    r = oblig.run('iso.after', cases, ctx, funcs, '%d programs P x %d predecessors Q (incl. none; the 20 feature programs - formatting, four namespaces, macro tables, script handles, hashmaps, error / parse / preprocessor diagnostics, code printing, text, assembly, own config trees, counters in variables, type names, registry listings - serve as P and as Q), Q executed in another VM instance of the same process image which is then destroyed or kept alive (symbolic choice)' % (len(P) + len(F), len(Q) + len(F)),
                  assumptions=['instances run one after another in one thread (concurrent instances are not applicable)', 'allocation failure is out of scope'], case_timeout=900, step_limit=600_000_000,
                  sample_fn=lambda rr: dict(case=rr.get('text'), outputs=str(rr.get('out'))[:200]) if rr.get('text') else None)
    if not r: return []
    ob, recs = r
    base = {}
    for rr in recs:
        if rr.get('q') == 'none' and rr.get('verdict') == 'ok': base[rr['p']] = rr['out']
    viols = []
    for rr in recs:
        if rr.get('verdict') != 'ok' or rr.get('q') in (None, 'none'): continue
        b = base.get(rr['p'])
        if b is None: continue
        if rr['out'] != b:
            viols.append(dict(kind='assert', key='iso.after:P=%s:Q=%s' % (rr['p'], rr['q']), case=rr['case'], inputs=rr.get('inputs'), replay=dict(kind='vm', op='iso', p=rr['p'], q=rr['q'], destroy=0), trust_without_replay=True,
                              msg='output of P=%s in a fresh VM differs after another instance ran Q=%s: %s vs alone %s' % (rr['p'], rr['q'], str(rr['out'])[:160], str(b)[:160])))
    seen = set(); uniq = []
    for v in viols:
        if v['key'] in seen: continue
        seen.add(v['key']); uniq.append(v)
    ob['violations'] += uniq
    if uniq: ob['status'] = 'violated'
    oblig.witness_check(ob, recs, lambda rr: rr['verdict'] == 'ok' and rr.get('q') not in (None, 'none'), 'a (P after Q) run compared with P alone')
    return [ob]
