"""C04 — runtime errors are never silent, never skipped over, never leak into later code.
Differential obligations (real VM in E2 vs reference semantics): programs with one injected erroring operation at every position class
(straight-line, inside each loop/iteration construct, in conditions and iteration results, as last statement, in spawned code, inside nested
except__ handlers), followed by further runs on the same VM instance."""
import itertools
import symrt as rt, vmh, diffvm, sqfref, oblig
from diffvm import Prog
from C02 import G, N, T

V = lambda n: ('var', n)
def E(k): return ('err', k)
TRUE = ('bool', True)

def sites(g, e):
    """statement lists that execute the erroring expression e at a particular kind of position; markers (trace) before and after"""
    d = dict(
        straight=lambda: [T(N(1)), e, T(N(2))],
        last=lambda: [T(N(1)), e],
        call=lambda: [T(N(1)), ('call', None, ('code', [T(N(2)), e, T(N(3))])), T(N(4))],
        call2=lambda: [T(N(1)), ('call', None, ('code', [('call', None, ('code', [T(N(2)), e, T(N(3))])), T(N(4))])), T(N(5))],
        operand=lambda: [T(N(1)), T(('arr', [N(1), ('call', None, ('code', [e, N(2)])), N(3)])), T(N(2))],
        ifbody=lambda: [('if', g.hb(), [T(N(1)), e, T(N(2))], [T(N(3))]), T(N(4))],
        whilebody=lambda: [('private', '_i', N(0)), ('while', [('bin', '<', V('_i'), N(3))], [T(V('_i')), ('if', ('bin', '==', V('_i'), g.hf([0, 1, 2])), [e], None), ('assign', '_i', ('bin', '+', V('_i'), N(1)))]), T(N(9))],
        whilecond=lambda: [('private', '_i', N(0)), ('while', [('assign', '_i', ('bin', '+', V('_i'), N(1))), ('if', ('bin', '==', V('_i'), g.hf([1, 2])), [e], None), ('bin', '<', V('_i'), N(3))], [T(V('_i'))]), T(N(9))],
        forbody=lambda: [('for', '_j', N(0), N(2), None, [T(V('_j')), ('if', ('bin', '==', V('_j'), g.hf([0, 1, 2])), [e], None)]), T(N(9))],
        foreachbody=lambda: [('foreach', [T(V('_x')), ('if', ('bin', '==', V('_x'), g.hf([1, 2, 3])), [e], None)], ('arr', [N(1), N(2), N(3)])), T(N(9))],
        foreachlast=lambda: [('foreach', [T(V('_x')), e], ('arr', [N(1), N(2)])), T(N(9))],
        countpred=lambda: [T(('countc', [T(V('_x')), ('if', ('bin', '==', V('_x'), g.hf([1, 2])), [e], None), TRUE], ('arr', [N(1), N(2)]))), T(N(9))],
        countnonbool=lambda: [T(('countc', [T(V('_x')), N(5)], ('arr', [N(1), N(2)]))), T(N(9))],
        selectnonbool=lambda: [T(('selectc', ('arr', [N(1), N(2)]), [T(V('_x')), N(5)])), T(N(9))],
        findifnonbool=lambda: [T(('findif', ('arr', [N(1), N(2)]), [T(V('_x')), ('str', b'x')])), T(N(9))],
        applybody=lambda: [T(('apply', ('arr', [N(1), N(2)]), [T(V('_x')), ('if', ('bin', '==', V('_x'), g.hf([1, 2])), [e], None), V('_x')])), T(N(9))],
        switchcase=lambda: [T(('switch', N(1), [('case', N(1), [T(N(1)), e, T(N(2))])])), T(N(9))],
        switchbody=lambda: [T(('switch', N(1), [T(N(1)), e, ('case', N(1), [T(N(2))])])), T(N(9))],
        trybody=lambda: [T(('try', [T(N(1)), e, T(N(2))], [T(N(3))])), T(N(9))],
        catchbody=lambda: [T(('try', [T(N(1)), ('throw', N(5)), T(N(2))], [T(N(3)), e, T(N(4))])), T(N(9))],
        lazy=lambda: [T(('lazy', 'and', TRUE, [T(N(1)), e, TRUE])), T(N(9))],
        spawn=lambda: [T(N(1)), ('spawn', ('arr', []), [T(N(2)), e, T(N(3))]), T(N(4))],
        # the error is raised by code entered through exitWith: with a handler around the body, the frame that exitWith kills IS the handler frame
        exitwith=lambda: [T(N(1)), ('exitwith', TRUE, [T(N(2)), e, T(N(3))]), T(N(4))],
        exitwithcall=lambda: [T(N(1)), ('exitwith', g.hb(), [T(N(2)), ('call', None, ('code', [T(N(5)), e, T(N(6))])), T(N(3))]), T(N(4))],
    )
    return d

def handlers(g, body, kind):
    """wrap body according to handler arrangement"""
    if kind == 'none': return body
    if kind == 'except': return [T(('arr', [('except', body, [T(('isnil', '_exception')), T(N(70)), N(71)])])), T(N(80))]
    if kind == 'except_in_call': return [('call', None, ('code', [T(('arr', [('except', body, [T(N(70))])])), T(N(75))])), T(N(80))]
    if kind == 'nested': return [T(('arr', [('except', [T(('arr', [('except', body, [T(N(60)), N(61)])])), T(N(65))], [T(N(70))])])), T(N(80))]
    if kind == 'nested_rethrow': return [T(('arr', [('except', [T(('arr', [('except', body, [T(N(60)), E(0), T(N(62))])])), T(N(65))], [T(N(70))])])), T(N(80))]
    if kind == 'deep': return [T(('arr', [('except', [('call', None, ('code', [('foreach', [('call', None, ('code', body))], ('arr', [N(1), N(2)])), T(N(66))]))], [T(N(70))])])), T(N(80))]
    raise ValueError(kind)
HK = ['none', 'except', 'except_in_call', 'nested', 'nested_rethrow', 'deep']

def history_case(h, progs, ops=vmh.OPS_DEFAULT):
    """run a sequence of programs on ONE VM instance; each run is compared with a fresh reference run"""
    def case():
        vm = h.new_vm(ops)
        hf = {}; hb = {}
        texts = []
        for ri, p in enumerate(progs):
            h.reset_obs()
            f2, b2 = diffvm.make_holes(p, h)
            text = p.text(); texts.append(text)
            r = h.run(vm, text)
            vm_trace = list(h.traces); errs = h.errors(); logs = list(h.logs)
            ref = sqfref.Ref(f2, b2)
            try: out = ref.run(p.stmts)
            except sqfref.RefUnsupported as e: rt.end_path('skipped', str(e))
            tag = 'run %d of %d: ' % (ri + 1, len(progs))
            if r == -3: rt.record_violation('assert', tag + 'program does not parse: ' + text[:200]); break
            if out[0] == 'ok' and not getattr(ref, 'handled', 0) and not getattr(ref, 'spawn_errors', 0):
                if errs: rt.record_violation('assert', tag + 'error-free run is blamed with: ' + errs[0][2][:160])
                if r == 2: rt.record_violation('assert', tag + 'error-free run reported as failed (runtime_error)')
            if out[0] == 'error':
                if r != 2: rt.record_violation('assert', tag + 'unhandled runtime error but execute() returned %d instead of runtime_error' % r)
                if not errs: rt.record_violation('assert', tag + 'unhandled runtime error without any error diagnostic')
                if not any('Stacktrace' in l[2] for l in logs): rt.record_violation('assert', tag + 'unhandled runtime error without a stack trace')
            if out[0] == 'ok' and r == 2 and not getattr(ref, 'spawn_errors', 0): rt.record_violation('assert', tag + 'all errors were handled but execute() returned runtime_error')
            if h.state(vm) != 0 and r != 2: rt.record_violation('assert', tag + 'VM not empty after the run (state %d)' % h.state(vm))
            n = min(len(vm_trace), len(ref.trace))
            for i in range(n):
                c = sqfref.same(vm_trace[i], [ref.trace[i]])
                if c is True: continue
                if c is False: rt.record_violation('assert', tag + 'trace entry %d differs: VM %r, reference %r' % (i, diffvm._short(vm_trace[i]), diffvm._short([ref.trace[i]]))); break
                rt.check(c, tag + 'trace entry %d differs for some hole values' % i)
            if len(vm_trace) != len(ref.trace) and not rt.PS.violations:
                rt.record_violation('assert', tag + 'VM executed %d traced statements, reference %d (VM tail %s | ref tail %s)' % (len(vm_trace), len(ref.trace), diffvm._short(vm_trace[-3:]), diffvm._short(ref.trace[-3:])))
            if rt.PS.violations: break
            if r == 2: h.execute(vm, 3)   # abort: what the CLI / API do after a failed run (documented recovery)
        return dict(text=' ||| '.join(texts)[:600], ntrace=1)
    return case

def programs(tier):
    progs = {}
    errs = [0, 1, 2, 3] if tier == 'thorough' else [0, 2]
    for k in errs:
        g0 = G(); names = list(sites(g0, E(k)))
        for sname in names:
            for hk in HK:
                g = G(); body = sites(g, E(k))[sname]()
                first = Prog(handlers(g, body, hk), g.f, g.b)
                g2 = G(); clean = Prog([T(N(1)), ('call', None, ('code', [T(N(2)), N(3)])), T(('except', [T(N(4)), N(5)], [T(N(6))])), T(N(7))], g2.f, g2.b)
                progs['e%d.%s.%s' % (k, sname, hk)] = [first, clean]
    # longer histories: error, clean, error-with-handler, clean
    g = G(); a = Prog(sites(g, E(0))['call2'](), g.f, g.b); g = G(); b = Prog([T(N(1)), N(2)], g.f, g.b)
    g = G(); c = Prog(handlers(g, sites(g, E(1))['foreachbody'](), 'except'), g.f, g.b)
    progs['hist.err.clean.handled.clean'] = [a, b, c, b]
    progs['hist.clean.err.err.clean'] = [b, a, a, b]
    return progs

def replay(spec):
    import vmreplay
    if spec.get('op') == 'runs':
        # history replay: run each text on one native VM is not supported by the simple driver; replay the failing run's text alone and after the previous one
        return vmreplay.replay_history(spec)
    return vmreplay.replay(spec)

def run(ctx):
    h = vmh.load()
    progs = programs(ctx['tier'])
    def key(cid, v, r): return 'err.hist:%s:%s' % (cid, v.get('kind'))
    def rep(cid, v, r):
        inp = v.get('inputs') or r.get('inputs') or {}
        runs = []
        for p in progs[cid]:
            sp = diffvm.replay_spec(p, inp)
            runs.append(dict(hex=sp['hex'], holes=sp['holes'], expect_traces=sp['expect_traces'], expect_outcome=sp['expect_outcome']))
        return dict(kind='vm', op='runs', runs=runs)
    funcs = sorted(n for n in h.m.DEFINED if ('runtime7runtime' in n or 'ops_sqfvm' in n or 'frame' in n) and len(n) < 120)
    r = oblig.run('err.hist', [(cid, history_case(h, ps)) for cid, ps in progs.items()], ctx, funcs,
                  '%d histories: one of %d erroring operations injected at %d position classes x %d handler arrangements, each followed by a clean run on the same VM; two 4-run histories' % (len(progs), 4 if ctx['tier'] == 'thorough' else 2, 24, len(HK)),
                  assumptions=['allocation failure is out of scope', 'reference semantics: lib/sqfref.py', 'after a run that returned runtime_error the harness calls execute(abort), as the CLI and the C API do'],
                  case_timeout=600, keyfn=key, replayfn=rep, step_limit=30_000_000,
                  sample_fn=lambda rr: dict(history=rr.get('text', '')[:300], path_condition=rr.get('pc', [])[:3]) if rr.get('text') else None)
    if not r: return []
    ob, recs = r
    oblig.witness_check(ob, recs, lambda rr: rr['verdict'] == 'ok' and rr.get('text'), 'a history compared run by run with the reference')
    return [ob]
