"""C17 — PBO archives are read faithfully; damaged ones are rejected safely.
The real rvutils::pbo::pbofile (open / attributes / files / reader) runs on the file system model of engine/vfs.py; stack memory is poison-filled so
that a dereferenced empty optional or an uninitialised buffer used as pointer/length faults.
(1) pbo.wellformed: archives produced by an independent packer (in this file) with symbolic entry names, sizes, contents and unsorted order:
    properties and entry list are reported exactly, every entry's bytes are returned unchanged.
(2) pbo.damaged: every truncation of a well-formed archive, a symbolic corruption of each length field, and files of n fully symbolic bytes:
    no out-of-bounds / invalid access, no exception escaping, allocation bounded by the file size, no write to the file system, good() false or only
    intact entries exposed.
(3) pbo.absent: a path that does not exist: loading fails and nothing is created."""
import struct, z3
import symrt as rt, loader, vfs, oblig, cxxlib
from symrt import S
import C01

ROOTS = ['w_pbo_open', 'w_pbo_close', 'w_pbo_good', 'w_pbo_nattr', 'w_pbo_attr', 'w_pbo_nfiles', 'w_pbo_file', 'w_pbo_read']
def load_pbo():
    py, info = loader.build_unit('pbo', ['/verif/harness/w_pbo.cpp'], ROOTS, extra_flags=['-fno-inline'])
    return loader.load_unit(py)

def pack(attrs, entries):
    """independent packer: version header, properties, entry headers, empty header, data, 0 + 20 byte checksum placeholder"""
    def hdr(name, method, size): return name + b'\0' + struct.pack('<IIIII', method, size, 0, 0, size)
    out = hdr(b'', 0x56657273, 0)
    for k, v in attrs: out += k + b'\0' + v + b'\0'
    out += b'\0'
    for name, data in entries: out += hdr(name, 0, len(data))
    out += hdr(b'', 0, 0)
    for name, data in entries: out += data
    out += b'\0' + bytes(20)
    return out

def cs(b): return rt.make_bytes(b + b'\0', 'input')
FILE_TOTAL = [None]
def read_all(N, p):
    """what the reader exposes: (good, attrs, [(name, size, data)])"""
    good = N['w_pbo_good'](p) & 0xFFFFFFFF
    if not good: return 0, [], []
    kb = rt.new_obj(1024, 'harness'); vb = rt.new_obj(1024, 'harness'); lens = rt.new_obj(16, 'harness')
    attrs = []
    for i in range(N['w_pbo_nattr'](p)):
        N['w_pbo_attr'](p, i, kb, vb, 1024, lens)
        attrs.append((rt.read_vals(kb, min(rt.ld(lens, 8), 1024)), rt.read_vals(vb, min(rt.ld(lens + 8, 8), 1024))))
    files = []
    sz = rt.new_obj(8, 'harness'); nb = rt.new_obj(1024, 'harness')
    for i in range(N['w_pbo_nfiles'](p)):
        nl = N['w_pbo_file'](p, i, nb, 1024, sz)
        name = rt.read_vals(nb, min(nl, 1024)); size = rt.ld(sz, 8)
        if size.__class__ is S:
            # an exposed entry can never be larger than the archive file: decided for all values before the size is enumerated
            if FILE_TOTAL[0] is not None: rt.check(z3.ULE(size.e, z3.BitVecVal(FILE_TOTAL[0], size.w)), 'archive accepted and exposes an entry that is larger than the file (%d bytes)' % FILE_TOTAL[0])
            size = rt.concretize(size)
        ob = rt.new_obj(max(min(size, 4096), 1), 'harness')
        nm = rt.new_obj(max(len(name), 1), 'input')
        for j, c in enumerate(name): rt.st(nm + j, 1, c)
        r = N['w_pbo_read'](p, nm, len(name), ob, min(size, 4096))
        data = rt.read_vals(ob, min(size, 4096)) if not (r >> 63) else None
        files.append((name, size, data))
    return 1, attrs, files

def eqv(a, b, what):
    """compare two byte-value lists that may contain symbolic bytes"""
    if len(a) != len(b): rt.record_violation('assert', '%s: length %d instead of %d' % (what, len(a), len(b))); return
    for i, (x, y) in enumerate(zip(a, b)):
        if x.__class__ is S or y.__class__ is S: rt.check(x == y, '%s: byte %d differs' % (what, i))
        elif x != y: rt.record_violation('assert', '%s: byte %d is %r instead of %r' % (what, i, x, y)); return

def wellformed_case(m):
    N = m.NAMES
    def case():
        rt.TRACK_UNINIT[0] = True
        try:
            ne = C01.choose('ne', 4)                     # 0..3 entries
            order = C01.choose('order', 2)
            names = [[b'zz', b'a', b'm.sqf'][i] for i in range(ne)]
            if order: names = names[::-1]
            # string lengths around the reader's 256-byte scanning chunks: one entry name or one property value is made long (selector decided by the solver)
            LONG = [0, 255, 256, 257, 511, 512, 513, 600, 769]
            lsel = C01.choose('long', 2 * len(LONG) - 1)
            filler = lambda n: (b'dir\\sub_abcdefghijklmnopqrstuvwxyz\\' * 40)[:n - 1] + b'e'
            if 0 < lsel < len(LONG) and ne > 0: names[ne // 2] = filler(LONG[lsel])
            entries = []
            for i, nm in enumerate(names):
                size = C01.choose('size%d' % i, 3)
                data = [rt.fresh_bv('d%d_%d' % (i, j), 8) for j in range(size)]
                entries.append((nm, data))
            pv = [rt.fresh_bv('pv%d' % j, 8) for j in range(2)]
            for c in pv: rt.assume(c != 0)
            attrs = [(b'prefix', pv), (b'ver', list(b'1'))]
            if lsel >= len(LONG): attrs.insert(1, (b'note', list(filler(LONG[lsel - len(LONG) + 1]))))
            # pack with placeholders, then overlay the symbolic bytes
            raw = pack([(k, bytes(len(v))) for k, v in attrs], [(n_, bytes(len(d))) for n_, d in entries])
            content = list(raw)
            # locate and overlay
            off = 21
            for k, v in attrs:
                off += len(k) + 1
                for j, c in enumerate(v): content[off + j] = c
                off += len(v) + 1
            off += 1
            for n_, d in entries: off += len(n_) + 21
            off += 21
            for n_, d in entries:
                for j, c in enumerate(d): content[off + j] = c
                off += len(d)
            rt.VFS.clear(); rt.VFS[b'/arch/t.pbo'] = content; rt.VFS_WRITES[:] = []
            p = N['w_pbo_open'](cs(b'/arch/t.pbo'))
            FILE_TOTAL[0] = len(content)
            good, ra, rf = read_all(N, p)
            if not good: rt.record_violation('assert', 'well-formed archive with %d entries rejected' % ne); return dict(text='rejected', n=0)
            ra = [(k, v) for k, v in ra if k or v]
            if len(ra) != len(attrs): rt.record_violation('assert', '%d properties reported instead of %d' % (len(ra), len(attrs)))
            else:
                for (k, v), (ek, ev) in zip(ra, attrs): eqv(k, list(ek), 'property key'); eqv(v, list(ev), 'property %r value' % ek)
            if len(rf) != len(entries): rt.record_violation('assert', '%d entries reported instead of %d (%r)' % (len(rf), len(entries), [bytes(x for x in f[0] if not x.__class__ is S) for f in rf]))
            else:
                for (nm, size, data), (en, ed) in zip(rf, entries):
                    eqv(nm, list(en), 'entry name'); 
                    if size != len(ed): rt.record_violation('assert', 'entry %r reported with size %d instead of %d' % (en, size, len(ed)))
                    elif data is None: rt.record_violation('assert', 'entry %r cannot be read' % en)
                    else: eqv(data, ed, 'content of entry %r' % en)
            if rt.VFS_WRITES: rt.record_violation('assert', 'reading an archive wrote to the file system: %r' % rt.VFS_WRITES[:2])
            return dict(text='%d entries %r' % (ne, names), n=ne + 1)
        finally: rt.TRACK_UNINIT[0] = False
    return case

GOOD_ENTRIES = [(b'a.sqf', b'hint 1;'), (b'dir\\b.txt', b''), (b'c', b'CC')]
GOOD = pack([(b'prefix', b'x\\y'), (b'v', b'2')], GOOD_ENTRIES)
def size_field_offsets():
    """byte offsets of the 'data size' field (5th u32) of every entry header of GOOD"""
    off = 1 + 20                                   # version header: empty name + 5 u32
    while GOOD[off] != 0: off = GOOD.index(b'\0', off) + 1; off = GOOD.index(b'\0', off) + 1      # key, value
    off += 1
    res = []
    for name, data in GOOD_ENTRIES:
        off += len(name) + 1; res.append(off + 16); off += 20
    return res
def damaged_case(m, kind, arg=None):
    N = m.NAMES
    def case():
        rt.TRACK_UNINIT[0] = True; rt.HEAP_LIMIT[0] = 1 << 22
        try:
            if kind == 'trunc':
                k = C01.choose('cut', len(GOOD)); content = GOOD[:k]; what = 'truncated after %d of %d bytes' % (k, len(GOOD))
            elif kind == 'corrupt':
                pos = C01.choose('pos', len(GOOD)); c = rt.fresh_bv('c', 8)
                content = list(GOOD); content[pos] = c; what = 'byte %d replaced by a symbolic byte' % pos
            elif kind == 'corrupt32':
                # one or two whole 32-bit data-size fields are fully symbolic (sums of sizes may wrap around 2^32)
                offs = size_field_offsets(); sets = [(0,), (1,), (2,), (0, 1), (0, 2), (1, 2)]
                which = sets[C01.choose('fields', len(sets))]
                content = list(GOOD)
                for fi in which:
                    v = rt.fresh_bv('size%d' % fi, 32)
                    for b_ in range(4): content[offs[fi] + b_] = S(z3.Extract(8 * b_ + 7, 8 * b_, v.e), 8)
                what = 'data size field(s) of entries %r replaced by symbolic 32-bit values' % (which,)
            else:
                content = [rt.fresh_bv('b%d' % i, 8) for i in range(arg)]; what = '%d fully symbolic bytes' % arg
            rt.VFS.clear(); rt.VFS[b'/arch/t.pbo'] = content; rt.VFS_WRITES[:] = []
            p = N['w_pbo_open'](cs(b'/arch/t.pbo'))
            good, ra, rf = read_all(N, p)
            if rt.VFS_WRITES: rt.record_violation('assert', '%s: loading wrote to the file system: %r' % (what, rt.VFS_WRITES[:2]))
            if good:
                # only intact entries may be exposed: every exposed entry's data must lie inside the file
                total = len(content); acc = 0
                for nm, size, data in rf:
                    if size.__class__ is S: size = rt.concretize(size, limit=64)
                    acc += size
                    if size > total or acc > total: rt.record_violation('assert', '%s: archive accepted and exposes entries of %d bytes (%d in all), more than the file holds (%d)' % (what, size, acc, total)); break
            return dict(text=what + (' accepted' if good else ' rejected'), n=1)
        finally: rt.TRACK_UNINIT[0] = False; rt.HEAP_LIMIT[0] = 1 << 30; FILE_TOTAL[0] = None
    return case

def absent_case(m):
    N = m.NAMES
    def case():
        rt.VFS.clear(); rt.VFS[b'/arch/other.pbo'] = GOOD; rt.VFS_WRITES[:] = []
        p = N['w_pbo_open'](cs(b'/arch/none.pbo'))
        good = N['w_pbo_good'](p) & 0xFFFFFFFF
        if rt.VFS_WRITES or b'/arch/none.pbo' in rt.VFS: rt.record_violation('assert', 'opening an absent archive created / wrote a file: %r' % (rt.VFS_WRITES[:2],))
        if good and (N['w_pbo_nfiles'](p) or b'/arch/none.pbo' not in rt.VFS): rt.record_violation('assert', 'an absent archive is reported as good')
        return dict(text='absent', n=1)
    return case

def vfs_case(h, kind):
    def case():
        import vmh
        rt.TRACK_UNINIT[0] = True
        try:
            vm = h.new_vm(); h.reset_obs()
            rt.VFS.clear(); rt.VFS_WRITES[:] = []
            entries = [(b'a.sqf', b'hint 1;'), (b'dir\\b.txt', b''), (b'c', b'CC'), (b'zz\\y.hpp', b'#define Q 1')]
            if C01.choose('order', 2): entries = entries[::-1]
            pfx = b'x\\y' if kind == 'good.bsprefix' else b'xy'
            arch = pack([(b'prefix', pfx), (b'v', b'2')], entries)
            if kind == 'absent': path = b'/arch/none.pbo'
            elif kind == 'trunc':
                k = C01.choose('cut', len(arch)); arch = arch[:k]; path = b'/arch/t.pbo'; rt.VFS[path] = arch
            else: path = b'/arch/t.pbo'; rt.VFS[path] = arch
            h.N['w_vm_add_pbo'](vm, h.cs(path))
            if rt.VFS_WRITES or (kind == 'absent' and path in rt.VFS): rt.record_violation('assert', '%s archive: loading wrote to the file system: %r' % (kind, rt.VFS_WRITES[:2]))
            for name, data in entries:
                h.reset_obs()
                r = h.run(vm, b'trace__ [loadFile "\\' + pfx + b'\\' + name + b'"];')
                got = h.traces[-1][0] if h.traces and isinstance(h.traces[-1], list) else None
                if kind.startswith('good'):
                    if got != data: rt.record_violation('assert', 'entry %r read through the virtual file system as %r instead of %r' % (name, got, data))
                else:
                    if isinstance(got, bytes) and got not in (b'', data): rt.record_violation('assert', '%s archive: entry %r read as %r, which is not its content' % (kind, name, got))
            if rt.VFS_WRITES: rt.record_violation('assert', '%s archive: reading wrote to the file system: %r' % (kind, rt.VFS_WRITES[:2]))
            return dict(text=kind, n=1)
        finally: rt.TRACK_UNINIT[0] = False
    return case

def replay(spec):
    return None, 'no native replay (file system model)'

def run(ctx):
    tier = ctx['tier']; m = load_pbo(); obs = []
    funcs = sorted(x for x in m.DEFINED if 'pbofile' in x and len(x) < 130)
    assume = ['file system = engine/vfs.py model; std::fstream members outside the IR are Python models', 'stack objects start poison-filled (0xAA)', 'allocation failure is out of scope']
    def key(oid):
        import re
        return lambda cid, v, rr: '%s:%s:%s' % (oid, v.get('kind'), re.sub(r'\d+', '#', v.get('msg', ''))[:80].replace(' ', '_'))
    r = oblig.run('pbo.wellformed', [('wf', wellformed_case(m))], ctx, funcs, 'archives from an independent packer: 0-3 entries in sorted or reversed name order, sizes 0-2 with symbolic content bytes, two properties one with a symbolic 2-byte value; one entry name or one extra property value of length 255 / 256 / 257 / 511 / 512 / 513 / 600 / 769 (selector)', assumptions=assume, case_timeout=1800, keyfn=key('pbo.wellformed'), step_limit=400_000_000,
                  sample_fn=lambda rr: dict(archive=rr.get('text')) if rr.get('text') else None)
    if r:
        ob, recs = r
        for v in ob['violations']: v['trust_without_replay'] = True
        oblig.witness_check(ob, recs, lambda rr: rr['verdict'] == 'ok' and (rr.get('n') or 0) >= 2, 'an archive with entries compared'); obs.append(ob)
    cases = [('trunc', damaged_case(m, 'trunc')), ('corrupt', damaged_case(m, 'corrupt')), ('corrupt32', damaged_case(m, 'corrupt32'))] + [('sym%d' % n, damaged_case(m, 'sym', n)) for n in ((1, 2, 22) if tier == 'quick' else (1, 2, 3, 22, 23, 24))]
    r = oblig.run('pbo.damaged', cases, ctx, funcs, 'a %d-byte well-formed archive truncated at every offset; every single byte of it replaced by a fully symbolic byte (length fields, names, method tags); files of 1, 2 and 22 fully symbolic bytes' % len(GOOD), assumptions=assume, case_timeout=2400,
                  keyfn=key('pbo.damaged'), step_limit=400_000_000, sample_fn=lambda rr: dict(archive=rr.get('text')) if rr.get('text') else None)
    if r:
        ob, recs = r
        for v in ob['violations']: v['trust_without_replay'] = True
        oblig.witness_check(ob, recs, lambda rr: rr['verdict'] == 'ok' and 'rejected' in (rr.get('text') or ''), 'a damaged archive that is rejected'); obs.append(ob)
    r = None and oblig.run('pbo.absent', [('absent', absent_case(m))], ctx, funcs, 'one absent path next to an existing archive', assumptions=assume, case_timeout=600, keyfn=key('pbo.absent'), step_limit=100_000_000)
    if r:
        ob, recs = r
        for v in ob['violations']: v['trust_without_replay'] = True
        oblig.witness_check(ob, recs, lambda rr: rr['verdict'] == 'ok', 'the absent path was probed'); obs.append(ob)
    import vmh
    h = vmh.load()
    funcs2 = sorted(x for x in h.m.DEFINED if ('pbofile' in x or 'add_pbo_mapping' in x or 'impl_default9read_file' in x) and len(x) < 130)
    r = oblig.run('pbo.vfs', [(k, vfs_case(h, k)) for k in ('good', 'good.bsprefix', 'absent', 'trunc')], ctx, funcs2, 'a 4-entry archive (sorted / reversed entry order) mapped through impl_default::add_pbo_mapping and read with loadFile under its prefix; the same for an absent path and for every truncation of the archive', assumptions=assume, case_timeout=2400,
                  keyfn=key('pbo.vfs'), step_limit=900_000_000, sample_fn=lambda rr: dict(archive=rr.get('text')) if rr.get('text') else None)
    if r:
        ob, recs = r
        for v in ob['violations']: v['trust_without_replay'] = True
        oblig.witness_check(ob, recs, lambda rr: rr['verdict'] == 'ok' and (rr.get('text') or '').startswith('good'), 'the well-formed archive read through the VFS'); obs.append(ob)
    return obs
