"""C11 — execution bounds: maximum runtime per run (symbolic clock), while-loop cap in unscheduled code.
std::chrono::system_clock::now() is an external of the IR; its model here is a symbolic non-decreasing clock (each reading = previous + fresh
delta within stated bounds), so every placement of clock readings relative to the deadline is decided by the solver."""
import z3
import symrt as rt, vmh, oblig, diffvm, sqfref
from symrt import S
from diffvm import Prog
from C02 import G, N, T
import C01

V = lambda n: ('var', n)
def B(op, l, r): return ('bin', op, l, r)
NS = 1_000_000
T0 = 1_700_000_000 * 1_000_000_000

class Clock:
    """symbolic clock: now_k = now_{k-1} + d_k, dmin <= d_k <= dmax (ns)"""
    def __init__(s, dmin, dmax, start=None):
        s.readings = []; s.dmin = dmin; s.dmax = dmax
        s.cur = rt.fresh_bv('t0', 64) if start is None else start
        if start is None: rt.assume(z3.And(z3.UGE(s.cur.e, T0), z3.ULE(s.cur.e, T0 + 10**15)))
    def __call__(s):
        # a fresh reading constrained relative to the previous one (difference constraints keep the solver queries easy)
        t = rt.fresh_bv('t%d' % (len(s.readings) + 1), 64)
        prev = s.cur.e if s.cur.__class__ is S else z3.BitVecVal(s.cur, 64)
        rt.assume(z3.And(z3.UGE(t.e, prev + s.dmin), z3.ULE(t.e, prev + s.dmax), z3.ULE(t.e, T0 + 2 * 10**15)))
        s.cur = t
        s.readings.append(t)
        return t
    def mark(s): return len(s.readings)

PROG = 'trace__ [1]; trace__ [2]; trace__ [3]; trace__ [4];'   # 4 statements = 11 instructions = 11 deadline checks
def deadline_case(h, M_ms, nruns, symbolic_M=False):
    def case():
        gap = 4000 * NS
        clk = Clock(0, gap)
        rt.HOOKS['clock'] = clk
        try:
            vm = h.new_vm(vmh.OPS_DEFAULT, 0 if symbolic_M else M_ms)
            Mns = M_ms * NS
            if symbolic_M:
                m = rt.fresh_bv('M', 64); rt.assume(z3.And(z3.UGE(m.e, 1), z3.ULE(m.e, 2**31)))
                h.N['w_vm_set_cfg'](vm, 1, m); Mns = m * NS
            for run in range(nruns):
                h.reset_obs()
                rs = clk()                           # the embedder's own clock reading right before the run starts
                k0 = clk.mark()
                r = h.run(vm, PROG)
                L = clk.readings[k0:]
                ntr = len(h.traces)
                aborted = any('aximum' in l[2] or 'Maxium' in l[2] for l in h.logs)
                tag = 'run %d: ' % (run + 1)
                # (a) a run whose own readings stay within the limit is never aborted
                within = z3.And(*[z3.ULE((x.e if x.__class__ is S else z3.BitVecVal(x, 64)), (rs + Mns).e if (rs + Mns).__class__ is S else z3.BitVecVal(rs + Mns, 64)) for x in L]) if L else z3.BoolVal(True)
                if aborted or ntr < 4:
                    rt.check(z3.Not(within), tag + 'aborted by the time limit (%d of 4 statements ran) although every clock reading of this run is within max_runtime of the start of this run' % ntr)
                    if h.state(vm) != 0 or h.N['w_vm_context_count'](vm) != 0: rt.record_violation('assert', tag + 'VM not empty after the time-limit abort (state %d, %d contexts)' % (h.state(vm), h.N['w_vm_context_count'](vm)))
                    if not aborted: rt.record_violation('assert', tag + 'run stopped early without reporting MaximumRuntimeReached')
                else:
                    # (b) not aborted: no reading of the run may be later than first reading + limit
                    if L:
                        l0 = L[0]
                        late = z3.Or(*[z3.UGT((x.e if x.__class__ is S else z3.BitVecVal(x, 64)), ((l0 + Mns).e if (l0 + Mns).__class__ is S else z3.BitVecVal(l0 + Mns, 64))) for x in L])
                        rt.check(z3.Not(late), tag + 'completed although a clock reading during the run was later than its first reading + max_runtime')
                if rt.PS.violations: break
            return dict(text='%d run(s), max_runtime %s ms' % (nruns, 'symbolic' if symbolic_M else M_ms), n=nruns)
        finally:
            rt.HOOKS.pop('clock', None)
    return case

LOOPS = {
    'while': 'trace__ [1]; while {true} do { _x = 1 }; trace__ [2];',
    'for': 'trace__ [1]; for "_i" from 0 to 1 step 0 do { _x = 1 }; trace__ [2];',
    'recursion': 'trace__ [1]; f = { call f }; call f; trace__ [2];',
    'spawn.sleep': 'trace__ [1]; [] spawn { while {true} do { sleep 0.01 } }; trace__ [2];',
    'spawn.chain': 'trace__ [1]; g = { [] spawn g }; [] spawn g; trace__ [2];',
    'for.empty': 'trace__ [1]; for "_i" from 0 to 100000000 do { }; trace__ [2];',
    'for.empty.step0': 'trace__ [1]; for "_i" from 0 to 1 step 0 do { }; trace__ [2];',
    'spawn.longsleep': 'trace__ [1]; [] spawn { sleep 5 }; trace__ [2];',
    'foreach.big': 'trace__ [1]; a = []; a resize 50; { { { _y = 1 } forEach a } forEach a } forEach a; trace__ [2];',
}
def nonterm_case(h, name, text):
    def case():
        step = [3, 7, 20][C01.choose('step', 3)] * NS
        state = {'t': T0, 'n': 0}
        def clk():
            state['t'] += step; state['n'] += 1; return state['t']
        rt.HOOKS['clock'] = clk
        try:
            vm = h.new_vm(vmh.OPS_DEFAULT, 200)
            h.N['w_vm_set_cfg'](vm, 0, 0)     # no while cap: only the time limit may end these programs
            h.reset_obs()
            r = h.run(vm, text)
            aborted = any('Maxium' in l[2] or 'aximum' in l[2] for l in h.logs)
            if not aborted: rt.record_violation('assert', 'non-terminating program %s ended without MaximumRuntimeReached (result %d)' % (name, r))
            if h.state(vm) != 0 or h.N['w_vm_context_count'](vm) != 0: rt.record_violation('assert', 'VM not empty after the time-limit abort')
            elapsed_ms = (state['t'] - T0) / NS
            if elapsed_ms > 200 + 150 * (step / NS) + 50: rt.record_violation('assert', 'run ended %d ms after its start (limit 200 ms, clock step %d ms)' % (elapsed_ms, step / NS))
            return dict(text=name, n=state['n'])
        finally:
            rt.HOOKS.pop('clock', None)
    return case

def replay(spec):
    import vmreplay
    if spec.get('kind') == 'native_time':
        rc, out, err = vmreplay.run(['timed', str(spec['max_runtime_ms']), str(spec['gap_ms']), spec['hex']], timeout=spec.get('timeout', 30))
        ok, d = vmreplay.native.classify(rc, out, err)
        if ok: return ok, d
        if spec['expect'] == 'second_run_completes':
            runs = out.split('RUN ')[1:]
            if len(runs) >= 2 and ('Maxium' in runs[1] or 'TRACE [4]' not in runs[1]): return True, 'native: the second run (started %d ms after VM creation, limit %d ms) was aborted by the time limit: %s' % (spec['gap_ms'], spec['max_runtime_ms'], runs[1][:160].replace('\n', ' | '))
            return False, 'native: second run completed'
        if spec['expect'] == 'abort':
            if 'Maxium' in out: return False, 'native: aborted by the time limit'
            return True, 'native: no abort'
    return vmreplay.replay(spec)

def run(ctx):
    tier = ctx['tier']; obs = []
    h = vmh.load()
    funcs = sorted(n for n in h.m.DEFINED if ('runtime7runtime' in n or 'ops_generic' in n and ('while' in n or 'sleep' in n or 'waituntil' in n)) and len(n) < 130) + ['execute_do (static, runtime.cpp)']
    # (1) deadline with symbolic clock
    cases = [('deadline.1run', deadline_case(h, 1000, 1)), ('deadline.2runs', deadline_case(h, 1000, 2))]
    if tier == 'thorough': cases.append(('deadline.symM', deadline_case(h, 1000, 1, True)))
    if tier == 'thorough': cases.append(('deadline.3runs', deadline_case(h, 50, 3)))
    rt.CFG_LOGIC[0] = 'QF_BV'
    def rep(cid, v, rr):
        if 'aborted by the time limit' in v.get('msg', '') and 'run 2' in v.get('msg', ''): return dict(kind='native_time', max_runtime_ms=300, gap_ms=600, hex=PROG.encode().hex(), expect='second_run_completes')
        return None
    r = oblig.run('deadline', cases, ctx, funcs, 'clock: every system_clock::now() reading = previous + d, 0 <= d <= 4 s, start within 11 days of 2023-11; 4-statement program run 1-3 times on one VM with max_runtime 1000 ms (or symbolic in [1, 2^31] ms); all placements of the readings relative to the deadline',
                  assumptions=['system_clock::now() is modelled as a symbolic monotone clock', 'allocation failure is out of scope'], case_timeout=900, keyfn=lambda cid, v, rr: 'deadline:%s:%s' % (cid, v.get('msg', '')[:50].replace(' ', '_')), replayfn=rep, step_limit=500_000_000)
    if r:
        ob, recs = r
        for v in ob['violations']:
            if v.get('replay') is None: v['trust_without_replay'] = True
        oblig.witness_check(ob, recs, lambda rr: rr['verdict'] == 'ok' and rr.get('n'), 'a path through all runs'); obs.append(ob)
    rt.CFG_LOGIC[0] = None
    # (1b) non-terminating programs end by the limit (clock step chosen by the solver from {3,7,20} ms)
    r = oblig.run('limit.fires', [('nt.' + k, nonterm_case(h, k, t)) for k, t in LOOPS.items()], ctx, funcs, '%d non-terminating / long-running programs (while, for step 0, for with an empty body, recursion, spawned sleep loop, one long sleep, mutually spawning scripts, waitUntil, triple forEach), max_runtime 200 ms, clock advancing 3 / 7 / 20 ms per reading' % len(LOOPS),
                  assumptions=['clock advances by a fixed step per reading in this obligation (a free clock makes the sleep/wake-up comparisons fork exponentially)'], case_timeout=900, keyfn=lambda cid, v, rr: 'limit.fires:%s' % cid, step_limit=6_000_000,
                  budget_is_violation='program under max_runtime does not end', replayfn=lambda cid, v, rr: dict(kind='native_time', max_runtime_ms=300, gap_ms=0, hex=LOOPS[cid[3:]].encode().hex(), expect='abort', timeout=20))
    if r:
        ob, recs = r
        oblig.witness_check(ob, recs, lambda rr: rr['verdict'] == 'ok' and rr.get('n'), 'a program ended by the limit'); obs.append(ob)
    # (2) while cap
    progs = {}
    def wprog(cond, body):
        g = G(); return Prog([('private', '_i', N(0)), ('while', cond, body), T(V('_i'))], g.f, g.b)
    inc = ('assign', '_i', B('+', V('_i'), N(1)))
    progs['true.body'] = wprog([('bool', True)], [T(N(100)), inc])
    progs['true.empty'] = wprog([inc, T(V('_i')), ('bool', True)], [])
    progs['cond.counts'] = wprog([inc, T(V('_i')), ('bool', True)], [T(N(100))])
    progs['cond.ends.first'] = wprog([inc, B('<', V('_i'), N(2))], [T(N(100))])
    progs['nested'] = wprog([('bool', True)], [inc, ('private', '_j', N(0)), ('while', [('bool', True)], [T(N(200)), ('assign', '_j', B('+', V('_j'), N(1)))])])
    progs['body.exitwith'] = wprog([('bool', True)], [inc, ('exitwith', B('>=', V('_i'), N(2)), [N(5)]), T(N(100))])
    progs['body.assign.only'] = wprog([('bool', True)], [inc])
    for K in ((1, 2, 3) if tier == 'quick' else (1, 2, 3, 5)):
        ob = diffvm.run_obligation('while.cap.K%d' % K, progs, ctx, h, 'max_loop_iterations_in_unscheduled = %d (a configuration field); %d while loops with always-true / counting conditions, empty, assigning, tracing, nested and early-exiting bodies' % (K, len(progs)), max_while=K, functions=funcs, step_limit=3_000_000)
        if ob: obs.append(ob)
    return obs
