"""C10 (part 2): whole front ends — real SQF parser (tokenizer + bison + to_assembly), config parser (+ apply to confighost),
preprocessor — on short symbolic inputs over a lexically relevant alphabet and on seed texts with symbolic bytes / truncations."""
import z3
import symrt as rt, vmh, oblig
from symrt import S

A_SQF = b'.e5-+"\'/*#\n x$a({[;,=t_'
A_CFG = b'a1{};=[],"\'/*#\n :+.e-$x'
A_PP = b'#\nAx(),"/*\\ d_'
SEEDS_SQF = [b'private _a = [1, "x""y", {true}] select 0;', b"_x = .5e3 + $1F - 0x1f; 'q'", b'if (a > 1.e2) then { hint str -1 } else { };', b'/* c */ call { _y = 1e+3; _y } // t\n#line 3 "f"\n[1,2] params ["_p"]',
             b'x = 1e5; y = .e5;', b'switch (a) do { case 1: { 2 }; default { 3 } };']
SEEDS_CFG = [b'class A { v = 1; s = "x"; a[] = {1, {2, "y"}}; };', b"class B : A { a[] += {3}; delete v; class C; }; t = 'q';", b'class D { x = 1.5e3; y = -0x1F; z = abc def; /* c */ // d\n};']
SEEDS_PP = [b'#define A(x,y) x##y #x\nA(1,2) "A(3)" // c\n', b'#ifdef A\nq\n#else\nr /* z */\n#endif\n#undef A\n__LINE__ __FILE__', b'#define B C\\\n D\n#define E(a) [a, B]\nE((1,2)) E("x,y")\n#ifndef B\n#endif',
            b'#define A A\nA\n', b'#define A B\n#define B A\nA B\n', b'#define F(x) F(x)\nF(1)\n', b'#define G(x) x\nG(G(G(2)))\nG(\n', b'#pragma once\n#if 1\n#else x\n#endif y\n#define\n#undef\n#ifdef\n', b'__EXEC(x = 3) __EVAL(x + 1) __EVAL([] select 5) __EVAL()\n']

def sym_text(parts):
    """parts: list of bytes | ('sym', name, alphabet|None). returns (buf, n)"""
    n = sum(len(p) if isinstance(p, (bytes, bytearray)) else 1 for p in parts)
    buf = rt.new_obj(n, 'input', 'source text (%d bytes)' % n)
    i = 0
    for p in parts:
        if isinstance(p, (bytes, bytearray)):
            rt.write_bytes(buf + i, bytes(p)); i += len(p)
        else:
            b = rt.fresh_bv(p[1], 8)
            if p[2] is not None: rt.assume(z3.Or(*[b.e == c for c in sorted(set(p[2]))]))
            elif len(p) > 3 and p[3]: rt.assume(b != 0)
            rt.st(buf + i, 1, b); i += 1
    return buf, n

def fe_case(h, kind, parts):
    def case():
        h.reset_obs()
        vm = h.new_vm()
        buf, n = sym_text(parts)
        if kind == 'sqf':
            hnd = h.N['w_vm_compile'](vm, buf, n); ok = hnd != 0
        elif kind == 'cfg':
            ok = vmh.s32(h.N['w_vm_parse_config'](vm, buf, n)) == 1
        else:
            ob = rt.new_obj(4096, 'harness')
            r = h.N['w_vm_preprocess'](vm, buf, n, ob, 4096); ok = not (r >> 63)
        errs = h.errors()
        if not ok and not errs:
            rt.record_violation('assert', '%s front end failed without reporting any error diagnostic' % kind)
        return dict(ok=ok, nerr=len(errs))
    return case

def _key(oid):
    import re
    def k(cid, v, r):
        m = re.sub(r'0x[0-9a-f]+|\d+', '#', v.get('msg', ''))[:90]
        return '%s:%s:%s' % (oid, v.get('kind'), m.replace(' ', '_'))
    return k

def _replay(kind, parts):
    def f(cid, v, r):
        inp = v.get('inputs') or r.get('inputs') or {}
        out = b''
        for p in parts:
            out += bytes(p) if isinstance(p, (bytes, bytearray)) else bytes([inp.get(p[1], 32) & 255])
        return dict(kind='vm', op={'sqf': 'compile', 'cfg': 'config', 'pp': 'preprocess'}[kind], hex=out.hex())
    return f

def run(ctx):
    tier = ctx['tier']; obs = []
    h = vmh.load()
    funcs = sorted(n for n in h.m.DEFINED if ('parser' in n or 'tokenizer' in n or 'preprocessor' in n) and len(n) < 140)
    assume = ['allocation failure is out of scope', 'iostream locale facets and number formatting are Python models (cxxlib)', '#include targets do not exist (file system access is closed: FileIO reports not found)']
    STEP = 3_000_000
    # ---- short symbolic inputs over the scanner-relevant alphabets
    for kind, alpha, ns in (('sqf', A_SQF, [1, 2, 3]), ('cfg', A_CFG, [1, 2, 3]), ('pp', A_PP, [1, 2, 3])):
        if tier == 'thorough': ns = ns + [4]
        for nb in ns:
            oid = '%s.alpha.n%d' % ({'sqf': 'compile', 'cfg': 'config', 'pp': 'pp'}[kind], nb)
            parts = [('sym', 'b%d' % i, alpha) for i in range(nb)]
            r = oblig.run(oid, [(oid, fe_case(h, kind, parts))], ctx, funcs, 'all strings of length %d over the %d-symbol alphabet %r' % (nb, len(set(alpha)), bytes(sorted(set(alpha))).decode('latin1')),
                          assumptions=assume, case_timeout=3000 if nb >= 4 else 600, keyfn=_key(oid), replayfn=_replay(kind, parts), step_limit=STEP,
                          budget_is_violation='%s front end does not finish within %d steps on a %d-byte input' % (kind, STEP, nb))
            if r:
                ob, recs = r
                oblig.witness_check(ob, recs, lambda rr: rr['verdict'] == 'ok' and rr.get('ok') is True, 'a path on which the front end accepts the input')
                obs.append(ob)
    # ---- seeds: every truncation (concrete) and every single-byte replacement by a fully symbolic byte
    for kind, seeds in (('sqf', SEEDS_SQF), ('cfg', SEEDS_CFG), ('pp', SEEDS_PP)):
        cases = []
        for si, seed in enumerate(seeds):
            stride = 1 if tier == 'thorough' else 2
            for pos in range(0, len(seed), stride):
                parts = [seed[:pos], ('sym', 'm', None, True), seed[pos + 1:]]
                cases.append(('s%d.mut%d' % (si, pos), parts))
            for pos in range(0, len(seed) + 1, stride):
                cases.append(('s%d.trunc%d' % (si, pos), [seed[:pos]]))
        oid = {'sqf': 'compile', 'cfg': 'config', 'pp': 'pp'}[kind] + '.seed'
        pm = dict(cases)
        r = oblig.run(oid, [(cid, fe_case(h, kind, parts)) for cid, parts in cases], ctx, funcs,
                      '%d seed texts (<= %d bytes): every truncation%s, and every position%s replaced by one fully symbolic non-NUL byte' % (len(seeds), max(len(x) for x in seeds), '' if tier == 'thorough' else ' at even offsets', '' if tier == 'thorough' else ' at even offsets'),
                      assumptions=assume, case_timeout=600, keyfn=_key(oid), replayfn=lambda cid, v, rr, kind=kind, pm=pm: _replay(kind, pm[cid])(cid, v, rr), step_limit=STEP,
                      budget_is_violation='%s front end does not finish within %d steps on a seed-sized input' % (kind, STEP))
        if r:
            ob, recs = r
            oblig.witness_check(ob, recs, lambda rr: rr['verdict'] == 'ok' and rr.get('ok') is True, 'a path on which the front end accepts the input')
            obs.append(ob)
    return obs
